"""Scripted environment: every piece of foreign code a redress call talks to.

One `Env` per scenario run.  Each callback (operation, classifier, result
classifier, strategies, sleep handler, before_sleep, sleeper, abort_if,
on_metric, on_log, attempt hooks) is at once

  * a recorder  -- appends an event to the totally ordered trace,
  * a fault site -- consults the call's fault plan,
  * a script player.

Virtual time moves only inside the operation and sleeper stubs (and, in async
mode, at the awaits those stubs perform on the SimLoop).
"""
from __future__ import annotations

import asyncio
import math

from redress import (
    AbortRetryError,
    Budget,
    CircuitBreaker,
    CircuitOpenError,
    Classification,
    ErrorClass,
    RetryExhaustedError,
    SleepDecision,
    StopReason,
)
from redress.circuit import CircuitState

from .clock import sec_to_us

CLASSES = [c.name for c in ErrorClass]
NON_RETRYABLE = ("PERMANENT", "AUTH", "PERMISSION")


# ---------------------------------------------------------------------------
# objects the operation produces
# ---------------------------------------------------------------------------
STATUS_OF = {"TRANSIENT": 408, "SERVER_ERROR": 500, "RATE_LIMIT": 429, "CONCURRENCY": 409, "AUTH": 401,
             "PERMISSION": 403, "PERMANENT": 400, "UNKNOWN": None}


class SimError(Exception):
    """Exception raised by the scripted operation (classified by `.cls`)."""

    def __init__(self, label: str, cls: str, retry_after=None) -> None:
        super().__init__(label)
        self.label = label
        self.cls = cls
        self.retry_after = retry_after
        # lets redress.default_classifier (used by no-retry policies) see the same class
        self.status = STATUS_OF.get(cls)

    def __reduce__(self):   # copyable / picklable like a well-behaved exception
        return (SimError, (self.label, self.cls, self.retry_after))


class SimTimeoutError(SimError, TimeoutError):
    """An operation failure that is itself a TimeoutError (socket / driver timeouts are)."""

    def __reduce__(self):
        return (SimTimeoutError, (self.label, self.cls, self.retry_after))


class SimFalsyError(SimError):
    """An operation failure whose instance is falsy (an aggregate error with no sub-errors)."""

    def __len__(self):
        return 0

    def __reduce__(self):
        return (SimFalsyError, (self.label, self.cls, self.retry_after))


class SimRuntimeError(SimError, RuntimeError):
    """An operation failure that is a RuntimeError (library code sometimes treats RuntimeError as 'my own problem')."""

    def __reduce__(self):
        return (SimRuntimeError, (self.label, self.cls, self.retry_after))


class SimOSError(SimError, OSError):
    def __reduce__(self):
        return (SimOSError, (self.label, self.cls, self.retry_after))


class SimHostileStatusError(Exception):
    """An SDK-style error whose `status` property parses a malformed status line and raises (not AttributeError);
    it carries no usable class information: any classifier that survives says UNKNOWN."""

    def __init__(self, label):
        super().__init__(label)
        self.label = label
        self.cls = "UNKNOWN"
        self.retry_after = None

    @property
    def status(self):
        return int("HTTP/1.1 5o3".split(" ")[1])


class SimFrozenError(SimError):
    """An operation failure whose type rejects attribute assignment (frozen-dataclass exceptions do);
    the interpreter's own bookkeeping (__traceback__, __context__, __cause__) bypasses __setattr__."""

    def __init__(self, label, cls, retry_after=None):
        super().__init__(label, cls, retry_after)
        object.__setattr__(self, "_frozen", True)

    def __setattr__(self, name, value):
        if getattr(self, "_frozen", False):
            raise AttributeError(f"cannot assign to field {name!r}")
        super().__setattr__(name, value)

    def __reduce__(self):
        return (SimFrozenError, (self.label, self.cls, self.retry_after))


class Val:
    """A successful result (identity matters, so never interned)."""

    __slots__ = ("label",)

    def __init__(self, label: str) -> None:
        self.label = label

    def __repr__(self) -> str:
        return f"Val({self.label})"


class AwVal:
    """A successful result that happens to be awaitable (a job handle, a Future-like object)."""

    def __init__(self, label: str) -> None:
        self.label = label

    def __await__(self):
        if False:  # pragma: no cover - makes this a generator
            yield
        return "unwrapped:" + self.label

    def __repr__(self) -> str:
        return f"AwVal({self.label})"


class Res:
    """A returned value that the result classifier treats as a failure."""

    __slots__ = ("label", "cls", "retry_after")

    def __init__(self, label: str, cls: str, retry_after=None) -> None:
        self.label = label
        self.cls = cls
        self.retry_after = retry_after

    def __repr__(self) -> str:
        return f"Res({self.label},{self.cls})"


class ResErr(Exception):
    """A failure delivered as a *returned* exception instance (gather(return_exceptions=True), Future.exception())."""

    def __init__(self, label: str, cls: str, retry_after=None) -> None:
        super().__init__(label)
        self.label = label
        self.cls = cls
        self.retry_after = retry_after


class Aw:
    """An awaitable that is not a coroutine (like a Future or an object with __await__)."""

    def __init__(self, coro):
        self._coro = coro

    def __await__(self):
        return self._coro.__await__()


class HookFault(Exception):
    """Base of custom injected exceptions."""


class CustomHookError(HookFault):
    pass


class AppError(Exception):
    """An application's own exception root."""


class HybridCancelled(asyncio.CancelledError, AppError):
    """application-level 'request cancelled': a CancelledError that is also an Exception"""


class HybridInterrupt(KeyboardInterrupt, AppError):
    pass


class HybridExit(SystemExit, AppError):
    pass


FAULT_EXC = {
    "HybridCancelled": HybridCancelled,
    "HybridInterrupt": HybridInterrupt,
    "HybridExit": HybridExit,
    "Exception": Exception,
    "ValueError": ValueError,
    "RuntimeError": RuntimeError,
    "KeyError": KeyError,
    "TimeoutError": TimeoutError,
    "StopIteration": StopIteration,
    "AbortRetryError": AbortRetryError,
    "CircuitOpenError": CircuitOpenError,
    "AsyncTimeoutError": asyncio.TimeoutError,
    "Custom": CustomHookError,
    "OSError": OSError,
    "ZeroDivisionError": ZeroDivisionError,
    "KeyboardInterrupt": KeyboardInterrupt,
    "SystemExit": SystemExit,
    "CancelledError": asyncio.CancelledError,
    "GeneratorExit": GeneratorExit,
    **{n: getattr(__import__("builtins"), n) for n in (
        "TypeError", "AttributeError", "IndexError", "AssertionError", "NotImplementedError", "UnicodeError", "EOFError", "ImportError",
        "MemoryError", "RecursionError", "StopAsyncIteration", "LookupError", "ArithmeticError", "BufferError", "ReferenceError",
        "SystemError", "ConnectionError", "PermissionError", "Warning")},
}


from redress import AbortRetry as AbortRetryAlias  # noqa: E402  (documented alias of AbortRetryError)


def make_fault_exc(name: str):
    if name == "RetryExhaustedError":
        return RetryExhaustedError(
            stop_reason=StopReason.MAX_ATTEMPTS_GLOBAL, attempts=1, last_class=None,
            last_exception=None, last_result=None)
    return FAULT_EXC[name](f"injected:{name}")


def _raise_here(exc):
    """The single raise site of scripted operation failures (C04 checks the
    surfaced traceback ends here)."""
    raise exc


RAISE_CODE = _raise_here.__code__


def decode_value(v):
    """Strategy script values: int = microseconds, or 'nan' / 'inf' / '-inf'."""
    if isinstance(v, str):
        return float(v)
    return v / 1e6


def fnum(x):
    """JSON/trace-safe rendering of a float that may be hostile."""
    if x is None:
        return None
    if isinstance(x, bool):
        return x
    if isinstance(x, (int, float)):
        if isinstance(x, float) and not math.isfinite(x):
            return repr(x)
        return x
    return repr(x)


# ---------------------------------------------------------------------------
class RecBudget(Budget):
    """The real Budget; consume()/remaining() are additionally recorded."""

    def __init__(self, env, *, max_retries, window_s):
        super().__init__(max_retries=max_retries, window_s=window_s)
        self._env = env

    def consume(self, cost: int = 1, *args, **kwargs) -> bool:
        ok = super().consume(cost, *args, **kwargs)
        if getattr(self._env, "_ext_consumer", False):
            # another consumer sharing this budget (modelled at an instant the scenario picked)
            self._env.ev("BUDGET", cost=cost, granted=ok, ext=True)
        else:
            self._env.ev("BUDGET", cost=cost, granted=ok)
        return ok


class RecBreaker(CircuitBreaker):
    """The real CircuitBreaker on the simulated clock, with a method log."""

    def __init__(self, env, **kw):
        super().__init__(clock=env.clock.monotonic, **kw)
        self._env = env

    def allow(self):
        d = super().allow()
        self._env.ev("BREAKER", m="allow", ret=d.allowed, bev=d.event, state=self._state.value)
        return d

    def record_success(self):
        r = super().record_success()
        self._env.ev("BREAKER", m="record_success", ret=r, state=self._state.value)
        return r

    def record_failure(self, klass):
        r = super().record_failure(klass)
        self._env.ev("BREAKER", m="record_failure", cls=getattr(klass, "name", repr(klass)), ret=r,
                     state=self._state.value)
        return r

    def record_cancel(self):
        r = super().record_cancel()
        self._env.ev("BREAKER", m="record_cancel", ret=None, state=self._state.value)
        return r


class GateRecBreaker(RecBreaker):
    """A breaker subclass with a truth value: "is traffic flowing?" -- falsy whenever it is not CLOSED."""

    def __bool__(self):
        return self._state is CircuitState.CLOSED


class SpyBreaker:
    """Pure spy with the breaker interface: admits (except at the scripted admission indices), never changes state."""

    def __init__(self, env, reject=()):
        self._env = env
        self._state = CircuitState.CLOSED
        self._reject = set(reject)
        self._n_allow = 0

    @property
    def state(self):
        return self._state

    def allow(self):
        from redress.circuit import _BreakerDecision

        i = self._n_allow
        self._n_allow += 1
        if i in self._reject:
            self._env.ev("BREAKER", m="allow", ret=False, bev="circuit_rejected", state="open")
            return _BreakerDecision(False, CircuitState.OPEN, "circuit_rejected")
        self._env.ev("BREAKER", m="allow", ret=True, bev=None, state=self._state.value)
        return _BreakerDecision(True, self._state, None)

    def record_success(self):
        self._env.ev("BREAKER", m="record_success", ret=None, state=self._state.value)
        return None

    def record_failure(self, klass):
        self._env.ev("BREAKER", m="record_failure", cls=getattr(klass, "name", repr(klass)), ret=None,
                     state=self._state.value)
        return None

    def record_cancel(self):
        self._env.ev("BREAKER", m="record_cancel", ret=None, state=self._state.value)


class FalsySpyBreaker(SpyBreaker):
    """A breaker object that is falsy (e.g. a container-like breaker reporting `len` = failures in the window)."""

    def __len__(self):
        return 0


# ---------------------------------------------------------------------------
class _BoundCtx:
    def __init__(self, fn):
        self._fn = fn

    def delay(self, ctx):
        return self._fn(ctx)


class _BoundLegacy:
    def __init__(self, fn):
        self._fn = fn

    def delay(self, attempt, klass, prev_sleep_s):
        return self._fn(attempt, klass, prev_sleep_s)


class _SizedStrategy:
    def __init__(self, fn):
        self._fn = fn
        self.__name__ = getattr(fn, "__name__", "strategy")
        for n in ("record_failure", "record_success"):
            if hasattr(fn, n):
                setattr(self, n, getattr(fn, n))

    def __call__(self, ctx):
        return self._fn(ctx)

    def __len__(self):
        return 0


import contextvars  # noqa: E402

CURRENT_CALL: contextvars.ContextVar = contextvars.ContextVar("vsim_current_call", default=None)


class CallState:
    """Per-call script position and counters."""
    env_id = None

    def __init__(self, cid, script: dict) -> None:
        self.cid = cid
        self.s = script
        self.attempts = script.get("attempts") or [{"kind": "ok"}]
        self.values = script.get("values") or [0]
        self.decisions = script.get("decisions") or []
        self.overshoot = script.get("overshoot") or [0]
        self.abort_at = script.get("abort_at")  # poll index of first True, or None
        # state-based abort: the flag rises when a given trace event happens (independent of poll counts)
        self.abort_when = script.get("abort_when")  # e.g. {"ev": "OP_END", "n": 2} -> at the 2nd OP_END of this call
        self.abort_flag = False
        self._when_seen = 0
        self.faults = script.get("faults") or []
        self.draws = script.get("draws") or []
        self.n = {}  # site -> invocation count
        self.susp = 0
        self.yields = 0
        self.pending_us = None
        self.none_failure = None
        self.last_exc_obj = None
        self.handler_dur = script.get("handler_dur") or []
        self.objects = {}
        self.last_cls_obj = None
        self.task = None

    def count(self, site: str) -> int:
        i = self.n.get(site, 0)
        self.n[site] = i + 1
        return i


class Env:
    def __init__(self, clock, mode: str = "sync", cfg: dict | None = None) -> None:
        self.clock = clock
        self.mode = mode
        self.cfg = cfg or {}
        self.trace: list[dict] = []
        self.seq = 0
        self.cur: CallState | None = None
        self._cs_by_task = {}
        self.fault_counts: dict[str, int] = {}
        self.loop = None
        self.res_enabled = bool(self.cfg.get("result_classifier"))

    # -- trace ----------------------------------------------------------
    def ev(self, _name: str, /, **kw) -> dict:
        self.seq += 1
        cs = self.cs()
        d = {"seq": self.seq, "t": self.clock.mono_us - self.clock.base_us,
             "call": cs.cid if cs is not None else None, "ev": _name}
        d.update(kw)
        self.trace.append(d)
        if cs is not None and cs.abort_when is not None and not cs.abort_flag and _name == cs.abort_when["ev"]:
            cs._when_seen += 1
            if cs._when_seen >= cs.abort_when.get("n", 1):
                cs.abort_flag = True
        return d

    def cs(self) -> CallState | None:
        if self.mode == "async" and self._cs_by_task:
            try:
                t = asyncio.current_task()
            except RuntimeError:
                t = None
            if t is not None and t in self._cs_by_task:
                return self._cs_by_task[t]
            # a helper task the library spawned on behalf of a call inherits the call's context
            v = CURRENT_CALL.get()
            if v is not None and v.env_id == id(self):
                return v
        return self.cur

    def fired(self, kind: str) -> None:
        self.fault_counts[kind] = self.fault_counts.get(kind, 0) + 1

    # -- fault plan -----------------------------------------------------
    def fault(self, site: str, idx: int, tags=()):
        """Return the exception to raise at the idx-th invocation of `site`, if any
        (`tags`: symbolic conditions that hold for this invocation, e.g. "aborted")."""
        cs = self.cs()
        if cs is None:
            return None
        for f in cs.faults:
            if f.get("site") == site and (f.get("at") == "always" or f.get("at") == idx or f.get("at") in tags):
                self.fired(f.get("kind", "callback_raise"))
                exc = make_fault_exc(f["exc"])
                lab = f"F{site}{idx}c{cs.cid}"
                cs.objects[lab] = exc
                self.ev("FAULT", site=site, idx=idx, exc=f["exc"], obj=lab)
                return exc
        return None

    # -- time-consuming primitives ---------------------------------------
    def spend(self, us: int) -> None:
        self.clock.advance(us)
        lp = getattr(self, "loop", None)
        if lp is not None and self.cfg.get("loop_clock_lags"):
            lp.lag_us += us          # blocking the loop: a loop that keeps its own clock does not see this time pass

    async def pause(self, us: int, where: str) -> None:
        """The only place simulated async code suspends."""
        cs = self.cs()
        k = cs.susp
        cs.susp += 1
        cs.pending_us = us
        self.ev("SUSPEND", k=k, where=where, us=us)
        await asyncio.sleep(us / 1e6)
        cs.pending_us = None

    def after_step(self, task) -> None:
        """Called by the SimLoop after every step of every task: if the task that runs
        a policy call is now suspended, this is its next *suspension point* -- wherever
        the await is (scripted stubs or the library's own code).  Cancellation faults
        are keyed on this index."""
        cs = self._cs_by_task.get(task)
        if cs is None or task.done():
            return
        k = cs.yields
        cs.yields += 1
        self.seq += 1
        self.trace.append({"seq": self.seq, "t": self.clock.mono_us - self.clock.base_us, "call": cs.cid, "ev": "YIELD", "k": k})
        for f in cs.faults:
            if f.get("site") == "cancel" and f.get("at") == k:
                self.fired("cancel_at_await")
                cs.cancel_injected = True
                frac = f.get("frac", 0)
                us = cs.pending_us or 0
                delay = (us * frac // 100) if (us > 0 and frac) else 0
                self.seq += 1
                self.trace.append({"seq": self.seq, "t": self.clock.mono_us - self.clock.base_us, "call": cs.cid, "ev": "FAULT",
                                   "site": "cancel", "idx": k, "delay": delay})
                if delay:
                    self.loop.call_later(delay / 1e6, task.cancel)
                else:
                    task.cancel()

    # -- default sleepers (library's time.sleep / asyncio.sleep) ----------
    def default_sleep(self, s) -> None:
        self._sleep_sync("default", s)

    def default_async_sleep(self, s):
        return self._sleep_async("default", s)

    def next_draw(self) -> float:
        cs = self.cs()
        i = cs.count("draw") if cs is not None else 0
        draws = cs.draws if cs is not None else []
        d = draws[i % len(draws)] if draws else 0.5
        if d == "top":
            v = 1.0 - 2.0 ** -53
        elif d == "zero":
            v = 0.0
        else:
            v = float(d)
        self.ev("DRAW", v=v)
        return v

    # -- the operation ----------------------------------------------------
    def op_for(self, cid: int, is_async: bool):
        """the operation *of call cid*: a distinct callable per call, so that an attempt of one call that invokes
        another call's operation (state shared between overlapping calls) shows up in the trace"""
        env = self
        if is_async and self.cfg.get("eager_async_op"):
            # the async operation is a plain callable that does eager work and RETURNS an awaitable: a failure in the
            # eager part is raised synchronously, before any awaitable exists
            def op():
                cs = env.cs()
                k = cs.n.get("op", 0)
                st = cs.attempts[min(k, len(cs.attempts) - 1)]
                env._op_owner = cid
                if st["kind"] == "exc" and st.get("eager"):
                    return env.op_sync()
                return env.op_async()
        elif is_async:
            async def op():
                env._op_owner = cid
                return await env.op_async()
        else:
            def op():
                env._op_owner = cid
                return env.op_sync()
        return op

    def _op_pre(self):
        cs = self.cs()
        k = cs.count("op") + 1
        step = self._untie(cs.attempts[min(k - 1, len(cs.attempts) - 1)])
        if step.get("detach_breaker"):
            # a kill switch / hot reconfiguration: the policy's breaker attribute is cleared while the call is in flight
            for t in getattr(self, "policy_targets", []):
                if getattr(t, "circuit_breaker", None) is not None:
                    t.circuit_breaker = None
                    self.fired("breaker_detached")
        owner = getattr(self, "_op_owner", None)
        self._op_owner = None
        if owner is not None and owner != cs.cid:
            self.ev("OP_BEGIN", k=k, wrong_owner=owner)
        else:
            self.ev("OP_BEGIN", k=k)
        return cs, k, step

    def _untie(self, step):
        """an operation that ends exactly when its per-attempt timeout expires is a genuine race (timer order);
        the simulation resolves it in favour of the operation, identically in sync and async mode"""
        T = self.cfg.get("attempt_timeout_us")
        if T and self.cfg.get("timeouts_fire") and step.get("dur", 0) == T:
            step = dict(step, dur=T - 1)
        return step

    def _op_post(self, cs: CallState, k: int, step: dict):
        kind = step["kind"]
        lab = f"c{cs.cid}a{k}"
        if kind == "res" and not getattr(cs, "res_enabled", self.res_enabled):
            kind = "ok"  # without a result classifier every returned object is a success
        if kind == "ok":
            v = AwVal("V" + lab) if step.get("aw") else Val("V" + lab)
            cs.objects[v.label] = v
            self.ev("OP_END", k=k, kind="ok", obj=v.label)
            return v
        if kind == "res" and step.get("none"):
            # poll-until-ready style: the operation returns None and the result classifier calls that a failure
            cs.none_failure = (step["cls"], step.get("ra"))
            self.ev("OP_END", k=k, kind="res", cls=step["cls"], obj=None, ra=step.get("ra"), none=True)
            return None
        if kind == "res":
            r = (ResErr if step.get("as_exc") else Res)("R" + lab, step["cls"], step.get("ra"))
            cs.objects[r.label] = r
            self.ev("OP_END", k=k, kind="res", cls=step["cls"], obj=r.label, ra=step.get("ra"))
            return r
        if kind == "exc":
            prev = cs.last_exc_obj
            shared = getattr(self, "last_exc_any", None)
            if step.get("reuse_any") and shared is not None:
                # the very same exception object surfaces again in another call / through another policy
                # (memoised failure, Future.result(), module-level error singleton): its own class travels with it
                e = shared
            elif step.get("reuse_refreshed") and prev is not None and type(prev) in (SimError, SimRuntimeError, SimOSError) \
                    and prev.label.startswith(f"Ec{cs.cid}a"):
                # (only an object this call created itself: refreshing one that another, possibly still running, call
                # has raised would change that call's failure under its feet)
                # one cached error object, refreshed in place before it is raised again: what the classifier says about
                # it now differs from what it said last time
                e = prev
                e.cls = step["cls"]
                e.retry_after = step.get("ra")
                e.status = STATUS_OF.get(step["cls"])
            elif step.get("reuse") and prev is not None and prev.cls == step["cls"] and prev.retry_after == step.get("ra"):
                e = prev          # the operation re-raises a cached exception object (e.g. Future.result() of a failed future)
            else:
                etype = (SimTimeoutError if step.get("timeout_type") else SimFalsyError if step.get("falsy")
                         else SimFrozenError if step.get("frozen") else SimRuntimeError if step.get("rt")
                         else SimOSError if step.get("oserr") else SimError)
                e = etype("E" + lab, step["cls"], step.get("ra"))
                if step.get("status_cls"):
                    # what redress.default_classifier (no-retry policies) makes of it differs from what the
                    # retrying policy's own classifier says: two policies, two opinions about one error
                    object.__setattr__(e, "status", STATUS_OF.get(step["status_cls"]))
            cs.last_exc_obj = e
            self.last_exc_any = e
            cs.objects[e.label] = e
            dcls = next((k for k, v in STATUS_OF.items() if v == e.status), "UNKNOWN")
            self.ev("OP_END", k=k, kind="exc", cls=e.cls, obj=e.label, ra=e.retry_after, etype=type(e).__name__, dcls=dcls)
            if step.get("ctx_coe"):
                # raised while handling a nested breaker's rejection: the rejection is only the implicit __context__
                try:
                    raise CircuitOpenError("open")
                except CircuitOpenError:
                    _raise_here(e)
            _raise_here(e)
        if kind == "hostile_status":
            e = SimHostileStatusError("E" + lab)
            cs.objects[e.label] = e
            self.ev("OP_END", k=k, kind="exc", cls="UNKNOWN", obj=e.label, ra=None, etype=type(e).__name__, dcls="UNKNOWN")
            _raise_here(e)
        if kind == "abort":
            e = (AbortRetryAlias if step.get("alias") else AbortRetryError)("A" + lab)
            cs.objects["A" + lab] = e
            self.fired("op_abort")
            self.ev("OP_END", k=k, kind="abort", obj="A" + lab)
            _raise_here(e)
        if kind == "base":
            e = FAULT_EXC[step["exc"]]("B" + lab)
            cs.objects["B" + lab] = e
            self.fired("base_exc")
            self.ev("OP_END", k=k, kind="base", exc=step["exc"], obj="B" + lab)
            _raise_here(e)
        if kind == "nested_ree":
            inner = SimError("I" + lab, "TRANSIENT")
            e = RetryExhaustedError(
                stop_reason=StopReason.MAX_ATTEMPTS_GLOBAL, attempts=2,
                last_class=ErrorClass[step.get("cls", "TRANSIENT")], last_exception=inner, last_result=None)
            cs.objects["N" + lab] = e
            self.fired("nested_policy")
            self.ev("OP_END", k=k, kind="nested_ree", obj="N" + lab, cls=step.get("cls", "TRANSIENT"))
            _raise_here(e)
        if kind == "nested_coe":
            e = CircuitOpenError("open")
            cs.objects["N" + lab] = e
            self.fired("nested_policy")
            self.ev("OP_END", k=k, kind="nested_coe", obj="N" + lab)
            _raise_here(e)
        raise AssertionError(f"unknown attempt kind {kind!r}")

    def peek_step(self) -> dict:
        cs = self.cs()
        k = cs.n.get("op", 0) + 1
        return self._untie(cs.attempts[min(k - 1, len(cs.attempts) - 1)])

    def op_sync_signalled(self):
        """The operation was started on the worker; an interruption is raised in the thread waiting for it."""
        cs, k, step = self._op_pre()
        lab = f"c{cs.cid}a{k}"
        e = FAULT_EXC[step["exc"]]("B" + lab)
        cs.objects["B" + lab] = e
        self.fired("signal_while_waiting")
        self.ev("OP_END", k=k, kind="base", exc=step["exc"], obj="B" + lab, signal=True)
        raise e

    def peek_op_dur(self) -> int:
        cs = self.cs()
        k = cs.n.get("op", 0) + 1
        return self._untie(cs.attempts[min(k - 1, len(cs.attempts) - 1)]).get("dur", 0)

    def op_sync(self):
        cs, k, step = self._op_pre()
        self.spend(step.get("dur", 0))
        return self._op_post(cs, k, step)

    def op_sync_abandoned(self, waited_us: int) -> None:
        """The operation was started but the per-attempt timeout fired first (simulated executor)."""
        cs, k, step = self._op_pre()
        self.spend(waited_us)
        self.fired("attempt_timeout")
        self.ev("OP_END", k=k, kind="timeout", obj="?TimeoutError", cls=self.cfg.get("timeout_cls", "TRANSIENT"))

    async def op_async(self):
        cs, k, step = self._op_pre()
        parts = step.get("parts", 1)
        dur = step.get("dur", 0)
        t_start = self.clock.mono_us
        lp = getattr(self, "loop", None)
        l_start = lp.time() if lp is not None else None
        try:
            for i in range(parts):
                await self.pause(dur // parts if i else dur - (dur // parts) * (parts - 1), f"op{k}")
        except asyncio.CancelledError:
            T = self.cfg.get("attempt_timeout_us")
            # wait_for gave up on this attempt: either a scenario whose timeouts are meant to fire, or -- in a scenario
            # whose operations are all shorter than the timeout -- another task blocked the loop past this attempt's
            # timeout (e.g. a synchronous sleeper in async code); a cancellation injected by the scenario is not one
            late = (T and l_start is not None and not getattr(cs, "cancel_injected", False)
                    and int(round((lp.time() - l_start) * 1e6)) >= T)
            if (self.cfg.get("timeouts_fire") and T and self.clock.mono_us - t_start == T) or (late and not self.cfg.get("timeouts_fire")):
                self.fired("attempt_timeout")     # asyncio.wait_for gave up on this attempt
                self.ev("OP_END", k=k, kind="timeout", obj="?TimeoutError", cls=self.cfg.get("timeout_cls", "TRANSIENT"))
            raise
        return self._op_post(cs, k, step)

    # -- classifier / result classifier ------------------------------------
    def classifier(self, exc):
        cs = self.cs()
        i = cs.count("classifier")
        if isinstance(exc, SimError):
            cls, ra, lab = exc.cls, exc.retry_after, exc.label
        elif isinstance(exc, TimeoutError):
            cls, ra, lab = self.cfg.get("timeout_cls", "TRANSIENT"), None, type(exc).__name__
        else:
            cls, ra, lab = "UNKNOWN", None, type(exc).__name__
        self.ev("CLASSIFY", obj=lab, cls=cls, i=i)
        f = self.fault("classifier", i)
        if f is not None:
            raise f
        return self._classification(cs, cls, ra)

    def _classification(self, cs, cls, ra):
        shape = self.cfg.get("cls_shape", "enum")
        if shape == "obj_shared":
            # the classifier answers with module-level constants: the very same Classification object every time
            key = (cls, ra)
            cache = self.__dict__.setdefault("_shared_cls", {})
            c = cache.get(key)
            if c is None:
                c = cache[key] = Classification(klass=ErrorClass[cls], retry_after_s=None if ra is None else ra / 1e6)
            cs.last_cls_obj = c
            return c
        if shape in ("obj", "obj_details") or ra is not None:
            c = Classification(klass=ErrorClass[cls], retry_after_s=None if ra is None else ra / 1e6,
                               **({"details": {"realm": "api", "code": cls.lower()}} if shape == "obj_details" else {}))
            cs.last_cls_obj = c
            return c
        cs.last_cls_obj = None
        return ErrorClass[cls]

    def result_classifier(self, result):
        cs = self.cs()
        i = cs.count("result_classifier")
        if result is None and cs.none_failure is not None:
            cls, ra = cs.none_failure
            cs.none_failure = None
            self.ev("RCLASSIFY", obj=None, cls=cls, i=i)
            f = self.fault("result_classifier", i)
            if f is not None:
                raise f
            return self._classification(cs, cls, ra)
        if isinstance(result, (Res, ResErr)):
            self.ev("RCLASSIFY", obj=result.label, cls=result.cls, i=i)
            f = self.fault("result_classifier", i)
            if f is not None:
                raise f
            return self._classification(cs, result.cls, result.retry_after)
        self.ev("RCLASSIFY", obj=getattr(result, "label", None), cls=None, i=i)
        f = self.fault("result_classifier", i)
        if f is not None:
            raise f
        return None

    # -- strategies -----------------------------------------------------------
    def make_strategy(self, which: str, style: str):
        env = self

        if style == "legacy":
            def strategy(attempt, klass, prev_sleep_s):
                return env._strategy(which, "legacy", attempt, klass, prev_sleep_s, None, None, None)
        else:
            def strategy(ctx):
                return env._strategy(which, "ctx", ctx.attempt, ctx.klass, ctx.prev_sleep_s,
                                     ctx.remaining_s, ctx.cause, ctx.classification)
        strategy.__name__ = f"strategy_{which}"
        if self.cfg.get("feedback") and style != "legacy":
            # stateful-strategy protocol (adaptive()): the loop reports failures / successes back
            def record_failure(klass=None):
                env.ev("STRAT_FB", which=which, what="failure", cls=getattr(klass, "name", None))
                cs = env.cs()
                if cs is not None and cs.s.get("fb_dur"):
                    # a slow feedback hook (lock contention, I/O): time passes between the loop's two clock reads
                    j = cs.count("fb")
                    d = cs.s["fb_dur"][j % len(cs.s["fb_dur"])]
                    if d:
                        env.spend(d)
                        env.fired("slow_feedback")

            def record_success():
                env.ev("STRAT_FB", which=which, what="success")
            strategy.record_failure = record_failure
            strategy.record_success = record_success
        if self.cfg.get("strat_shape") == "bound":
            # every strategy is the bound method `delay` of another instance of ONE class
            strategy = (_BoundCtx(strategy) if style != "legacy" else _BoundLegacy(strategy)).delay
        if self.cfg.get("strat_shape") == "sized" and style != "legacy":
            # a strategy *object* that is also an (empty) container -- e.g. a schedule / history-backed strategy: falsy, callable
            strategy = _SizedStrategy(strategy)
        return strategy

    def _strategy(self, which, style, attempt, klass, prev, remaining, cause, classification):
        cs = self.cs()
        j = cs.count("strategy")
        raw = decode_value(cs.values[j % len(cs.values)])
        same = None
        ra = None
        if classification is not None:
            ra = classification.retry_after_s
            lc = cs.last_cls_obj
            # the statement demands the classifier's classification (incl. retry_after_s), not object identity
            same = (classification.klass is lc.klass and classification.retry_after_s == lc.retry_after_s
                    and dict(classification.details) == dict(lc.details)) if lc is not None else None
        self.ev("STRATEGY", which=which, style=style, attempt=attempt,
                cls=getattr(klass, "name", repr(klass)), prev=fnum(prev), remaining=fnum(remaining),
                cause=cause, ra=fnum(ra), same_cls_obj=same, raw=fnum(raw), j=j)
        sd = cs.s.get("strategy_dur")
        if sd and sd[j % len(sd)]:
            self.spend(sd[j % len(sd)])          # a slow strategy (I/O, lock contention): virtual time passes inside it
            self.fired("slow_strategy")
        ext = cs.s.get("ext_consume")
        if ext and j in ext and getattr(self, "shared_budget", None) is not None:
            # a concurrent consumer of the shared budget gets its turn exactly while this strategy is being evaluated
            self._ext_consumer = True
            try:
                self.shared_budget.consume(1)
            finally:
                self._ext_consumer = False
            self.fired("concurrent_consumer")
        f = self.fault("strategy", j)
        if f is not None:
            raise f
        return raw

    # -- sleep handler / before_sleep / sleeper ----------------------------------
    @staticmethod
    def _ctx_fields(ctx):
        if ctx is None:
            return None
        return {"attempt": ctx.attempt, "cls": ctx.klass.name, "prev": fnum(ctx.prev_sleep_s),
                "remaining": fnum(ctx.remaining_s), "cause": ctx.cause,
                "ra": fnum(ctx.classification.retry_after_s)}

    def make_handler(self, which: str):
        env = self

        def handler(ctx, sleep_s):
            cs = env.cs()
            j = cs.count("handler")
            d = cs.decisions[j] if j < len(cs.decisions) else "S"
            env.ev("HANDLER", which=which, sleep_s=fnum(sleep_s), ctx=env._ctx_fields(ctx), decision=d, j=j)
            if cs.handler_dur:
                hd = cs.handler_dur[j % len(cs.handler_dur)]
                if hd:
                    env.spend(hd)       # a slow (blocking) sleep handler
                    env.fired("slow_handler")
            f = env.fault("handler", j)
            if f is not None:
                raise f
            if d != "S":
                env.fired("sleep_decision")
            if d == "X":
                return "sleep"  # invalid (plain str that is not a SleepDecision member by identity)
            if d in ("d", "a"):
                # the decision as a plain string read from configuration / JSON: equal to the enum member, not identical
                return "".join(["de", "fer"]) if d == "d" else "".join(["ab", "ort"])
            return {"S": SleepDecision.SLEEP, "D": SleepDecision.DEFER, "A": SleepDecision.ABORT}[d]

        return handler

    def make_before_sleep(self, which: str, awaitable: bool = False):
        env = self

        def before_sleep(ctx, sleep_s):
            cs = env.cs()
            j = cs.count("before_sleep")
            env.ev("BEFORE_SLEEP", which=which, sleep_s=fnum(sleep_s), ctx=env._ctx_fields(ctx), j=j)
            f = env.fault("before_sleep", j)
            if f is not None:
                raise f

        async def before_sleep_async(ctx, sleep_s):
            cs = env.cs()
            j = cs.count("before_sleep")
            env.ev("BEFORE_SLEEP", which=which, sleep_s=fnum(sleep_s), ctx=env._ctx_fields(ctx), j=j)
            f = env.fault("before_sleep", j)
            if f is not None:
                raise f
            await env.pause(0, f"before_sleep{j}")
            env.ev("BEFORE_SLEEP_END", j=j)
            f = env.fault("before_sleep_after", j)
            if f is not None:
                raise f

        if awaitable == "aw":
            return lambda ctx, sleep_s: Aw(before_sleep_async(ctx, sleep_s))
        return before_sleep_async if awaitable else before_sleep

    def _sleep_pre(self, which, s):
        cs = self.cs()
        j = cs.count("sleep")
        over = cs.overshoot[j % len(cs.overshoot)]
        self.ev("SLEEP_BEGIN", which=which, delay=fnum(s), j=j)
        f = self.fault("sleeper", j)
        if f is not None:
            raise f
        if over > 0:
            self.fired("slow_sleep")
        elif over < 0:
            # a sleeper that returns EARLY (a caller-supplied no-op / test sleeper, cf. redress.testing's instant
            # retries): less time passes than was asked for, never negative time
            self.fired("early_sleep")
        return cs, j, max(0, sec_to_us(s) + over), over

    def _sleep_sync(self, which, s):
        cs, j, us, over = self._sleep_pre(which, s)
        self.spend(us)
        self.ev("SLEEP_END", j=j, overshoot=over)
        f = self.fault("sleeper_after", j)
        if f is not None:
            raise f

    async def _sleep_async(self, which, s):
        cs, j, us, over = self._sleep_pre(which, s)
        await self.pause(us, f"sleep{j}")
        self.ev("SLEEP_END", j=j, overshoot=over)
        f = self.fault("sleeper_after", j)
        if f is not None:
            raise f

    def make_sleeper(self, which: str, kind: str = "sync"):
        env = self
        if kind == "async":
            async def sleeper(s):
                await env._sleep_async(which, s)
        elif kind == "aw":
            def sleeper(s):
                return Aw(env._sleep_async(which, s))
        else:
            def sleeper(s):
                env._sleep_sync(which, s)
        return sleeper

    # -- abort predicate -----------------------------------------------------------
    def abort_if(self) -> bool:
        cs = self.cs()
        i = cs.count("poll")
        ans = cs.abort_flag or (cs.abort_at is not None and i >= cs.abort_at)
        self.ev("POLL", i=i, ans=ans)
        if ans:
            self.fired("abort_flag")
        f = self.fault("abort_if", i)
        if f is not None:
            raise f
        return ans

    # -- observability hooks -----------------------------------------------------------
    def _hook_time(self, cs, i):
        """a slow observability hook (blocking exporter): virtual time passes inside it, before it returns or raises"""
        d = cs.s.get("hook_dur")
        if d and d[i % len(d)]:
            self.spend(d[i % len(d)])
            self.fired("slow_hook")

    def on_metric(self, event, attempt, sleep_s, tags):
        cs = self.cs()
        i = cs.count("on_metric")
        self.ev("METRIC", event=event, attempt=attempt, sleep_s=fnum(sleep_s), tags=dict(tags), i=i)
        self._hook_time(cs, i)
        f = self.fault("on_metric", i)
        if f is not None:
            raise f

    def on_log(self, event, fields):
        cs = self.cs()
        i = cs.count("on_log")
        self.ev("LOG", event=event, fields={k: fnum(v) if isinstance(v, float) else v for k, v in fields.items()}, i=i)
        self._hook_time(cs, i)
        f = self.fault("on_log", i)
        if f is not None:
            raise f

    def make_attempt_hook(self, which: str, phase: str):
        env = self

        def hook(ctx):
            cs = env.cs()
            i = cs.count("attempt_" + phase)
            env.ev("ATT_" + phase.upper(), which=which, attempt=ctx.attempt,
                   decision=None if ctx.decision is None else ctx.decision.value,
                   stop_reason=None if ctx.stop_reason is None else ctx.stop_reason.value,
                   cause=ctx.cause, sleep_s=fnum(ctx.sleep_s),
                   cls=None if ctx.classification is None else getattr(ctx.classification, "klass", ctx.classification).name
                   if hasattr(getattr(ctx.classification, "klass", ctx.classification), "name") else repr(ctx.classification),
                   exc=None if ctx.exception is None else getattr(ctx.exception, "label", type(ctx.exception).__name__),
                   result=None if ctx.result is None else getattr(ctx.result, "label", type(ctx.result).__name__),
                   i=i)
            # "aborted": an observer written for finished attempts that trips over the context of an interrupted one
            f = env.fault("attempt_" + phase, i, tags=("aborted",) if getattr(ctx.decision, "value", None) == "aborted" else ())
            if f is not None:
                raise f

        return hook
