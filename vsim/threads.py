"""Baton-passing scheduler for real threads.

N real threads execute the component's real code, but only the thread holding
the baton runs; the controller (the calling thread) decides who gets the baton
next at every *yield point*:

  * before every source line (optionally: every bytecode) of the component's
    files, via sys.settrace inside each worker,
  * at every SimLock acquire / release.

SimLock replaces threading.Lock inside redress.circuit / redress.budget: an
acquire on a held lock marks the thread blocked, so the controller always knows
who is runnable and detects deadlock exactly (nobody runnable, somebody
unfinished).  What is *not* real is the choice of who runs -- that comes from the
seeded chooser or a recorded schedule, so one seed is one interleaving.
"""
from __future__ import annotations

import sys
import threading as _rt


class Deadlock(Exception):
    pass


class StepCap(Exception):
    pass


class _Worker:
    __slots__ = ("idx", "fn", "go", "done", "blocked_on", "thread", "error", "steps")

    def __init__(self, idx, fn):
        self.idx = idx
        self.fn = fn
        self.go = _rt.Event()
        self.done = False
        self.blocked_on = None
        self.thread = None
        self.error = None
        self.steps = 0


class Scheduler:
    def __init__(self, chooser, files, opcode=False, step_cap=20000):
        self.chooser = chooser          # f(list of runnable worker idx, current idx or None) -> idx
        self.files = tuple(files)
        self.opcode = opcode
        self.step_cap = step_cap
        self.workers: list[_Worker] = []
        self.back = _rt.Event()
        self.current: _Worker | None = None
        self.schedule: list[int] = []   # chosen worker at every decision
        self.switches = 0
        self.steps = 0
        self.contended = 0
        self.states = set()
        self.state_probe = None
        self._local = _rt.local()
        self._abort = False

    # -- worker side -------------------------------------------------------
    def me(self) -> _Worker | None:
        return getattr(self._local, "w", None)

    def _tracer(self, frame, event, arg):
        if event != "call":
            return None
        if frame.f_code.co_filename.endswith(self.files):
            if self.opcode:
                frame.f_trace_opcodes = True
            return self._local_tracer
        return None

    def _local_tracer(self, frame, event, arg):
        if event == ("opcode" if self.opcode else "line"):
            self.yield_point()
        return self._local_tracer

    def yield_point(self) -> None:
        w = self.me()
        if w is None or self._abort:
            return
        w.steps += 1
        self.back.set()
        w.go.wait()
        w.go.clear()
        if self._abort:
            raise SystemExit

    def block_on(self, lock) -> None:
        w = self.me()
        w.blocked_on = lock
        self.contended += 1
        self.yield_point()

    def _run_worker(self, w: _Worker) -> None:
        self._local.w = w
        w.go.wait()
        w.go.clear()
        if self._abort:
            w.done = True
            self.back.set()
            return
        sys.settrace(self._tracer)
        try:
            w.fn()
        except SystemExit:
            pass
        except BaseException as exc:  # noqa: BLE001 - reported by the caller
            w.error = exc
        finally:
            sys.settrace(None)
            w.done = True
            self.back.set()

    # -- controller side -----------------------------------------------------
    def run(self, fns) -> None:
        self.workers = [_Worker(i, fn) for i, fn in enumerate(fns)]
        for w in self.workers:
            w.thread = _rt.Thread(target=self._run_worker, args=(w,), daemon=True)
            w.thread.start()
        try:
            while True:
                pending = [w for w in self.workers if not w.done]
                if not pending:
                    return
                runnable = [w.idx for w in pending if w.blocked_on is None or w.blocked_on.owner is None]
                if not runnable:
                    raise Deadlock([w.idx for w in pending])
                self.steps += 1
                if self.steps > self.step_cap:
                    raise StepCap()
                cur = self.current.idx if self.current is not None and not self.current.done else None
                pick = self.chooser(runnable, cur)
                if pick not in runnable:
                    pick = runnable[0]
                if cur is not None and pick != cur:
                    self.switches += 1
                self.schedule.append(pick)
                w = self.workers[pick]
                w.blocked_on = None
                self.current = w
                if self.state_probe is not None:
                    self.states.add(self.state_probe())
                self.back.clear()
                w.go.set()
                self.back.wait()
        except (Deadlock, StepCap):
            self._abort = True
            for w in self.workers:
                w.go.set()
            for w in self.workers:
                w.thread.join(timeout=1.0)
            raise
        finally:
            for w in self.workers:
                if w.thread is not None and w.done:
                    w.thread.join(timeout=1.0)


class SimLock:
    """Cooperative mutex (non re-entrant, like threading.Lock)."""

    def __init__(self, sched_ref):
        self._sched_ref = sched_ref
        self.owner = None

    def acquire(self, blocking=True, timeout=-1):
        sched = self._sched_ref()
        me = sched.me() if sched is not None else None
        if me is None:
            # sequential phase (no scheduler running): plain flag
            if self.owner is not None:
                raise Deadlock("sequential re-acquire")
            self.owner = "seq"
            return True
        sched.yield_point()
        while self.owner is not None:
            if not blocking:
                return False
            sched.block_on(self)
        self.owner = me
        return True

    def release(self):
        self.owner = None
        sched = self._sched_ref()
        if sched is not None and sched.me() is not None:
            sched.yield_point()

    def locked(self):
        return self.owner is not None

    def __enter__(self):
        self.acquire()
        return self

    def __exit__(self, *a):
        self.release()
        return False


class FakeThreading:
    """Stands in for the `threading` module inside circuit.py / budget.py."""

    def __init__(self):
        self.sched = None
        self.locks = []

    def _ref(self):
        return self.sched

    def Lock(self):
        lk = SimLock(self._ref)
        self.locks.append(lk)
        return lk

    def RLock(self):
        return self.Lock()

    def __getattr__(self, name):
        return getattr(_rt, name)


FAKE = FakeThreading()
