"""Trace -> per-call facts, and the *holds-set* of stop conditions (DESIGN §5).

Everything here is computed from observations (the trace) and configuration
(the scenario) only -- never from the library's internal state.
"""
from __future__ import annotations

NON_RETRYABLE = ("PERMANENT", "AUTH", "PERMISSION")

TERMINAL_EVENTS = {
    "success", "permanent_fail", "deadline_exceeded", "max_attempts_exceeded",
    "max_unknown_attempts_exceeded", "no_strategy_configured", "budget_exhausted",
    "scheduled", "aborted",
}
BREAKER_EVENTS = {"circuit_opened", "circuit_half_open", "circuit_closed", "circuit_rejected"}


class Attempt:
    __slots__ = ("k", "begin", "end", "events", "kind", "cls", "obj", "t_begin", "t_end",
                 "fclass", "cause", "timed_out")

    def __init__(self, k, begin):
        self.k = k
        self.begin = begin
        self.end = None
        self.events = []      # events after OP_BEGIN (incl. OP_END) up to next OP_BEGIN / CALL_END
        self.kind = None
        self.cls = None
        self.obj = None
        self.t_begin = begin["t"]
        self.t_end = None
        self.fclass = None    # class the classifier reported for this failure
        self.cause = None
        self.timed_out = False

    def after(self, name):
        """events of kind `name` after OP_END within this attempt's segment"""
        out = []
        seen_end = False
        for e in self.events:
            if e["ev"] == "OP_END":
                seen_end = True
                continue
            if seen_end and e["ev"] == name:
                out.append(e)
        return out

    def post(self):
        seen_end = False
        for e in self.events:
            if e["ev"] == "OP_END":
                seen_end = True
                continue
            if seen_end:
                yield e

    @property
    def failed(self):
        return self.kind in ("exc", "res", "nested_coe_in_retry")


class CallFacts:
    def __init__(self, cid):
        self.cid = cid
        self.begin = None
        self.end = None
        self.pre = []          # events before the first OP_BEGIN
        self.attempts: list[Attempt] = []
        self.events = []       # all events of this call in order

    @property
    def t0(self):
        return self.begin["t"]

    def all(self, name):
        return [e for e in self.events if e["ev"] == name]

    def metrics(self, include_breaker=False):
        return [e for e in self.events if e["ev"] == "METRIC"
                and (include_breaker or e["event"] not in BREAKER_EVENTS)]

    def logs(self, include_breaker=False):
        return [e for e in self.events if e["ev"] == "LOG"
                and (include_breaker or e["event"] not in BREAKER_EVENTS)]


def split_calls(trace) -> dict[int, CallFacts]:
    calls: dict[int, CallFacts] = {}
    for e in trace:
        cid = e.get("call")
        if cid is None:
            continue
        cf = calls.get(cid)
        if cf is None:
            cf = calls[cid] = CallFacts(cid)
        cf.events.append(e)
        name = e["ev"]
        if name == "CALL_BEGIN":
            cf.begin = e
        elif name == "CALL_END":
            cf.end = e
        elif name == "OP_BEGIN":
            cf.attempts.append(Attempt(e["k"], e))
        elif cf.attempts:
            a = cf.attempts[-1]
            a.events.append(e)
            if name == "OP_END":
                a.end = e
                a.kind = e["kind"]
                a.cls = e.get("cls")
                a.obj = e.get("obj")
                a.t_end = e["t"]
                if a.kind == "timeout":
                    # the per-attempt timeout fired: the attempt failed with the library's TimeoutError, whose class
                    # is what the policy's classifier says about TimeoutError (configuration: cfg.timeout_cls)
                    a.cause = "exception"
                    a.fclass = e.get("cls")
                    a.kind = "exc"
                    a.timed_out = True
                if a.kind == "exc":
                    a.cause = "exception"
                elif a.kind == "res":
                    a.cause = "result"
            elif name in ("CLASSIFY", "RCLASSIFY") and a.end is not None and a.fclass is None:
                if e.get("cls") is not None:
                    a.fclass = e["cls"]
                    if a.cause is None:
                        a.cause = "exception" if name == "CLASSIFY" else "result"
        else:
            cf.pre.append(e)
    return calls


def static_holds(cfg: dict, cf: CallFacts, idx: int) -> set[str]:
    """Stop conditions (other than budget/abort/handler/post-sleep deadline) that
    hold right after failed attempt cf.attempts[idx]."""
    a = cf.attempts[idx]
    K = a.fclass
    S = set()
    if K in NON_RETRYABLE:
        S.add("NON_RETRYABLE_CLASS")
    n_K = sum(1 for b in cf.attempts[: idx + 1] if b.fclass == K and b.kind in ("exc", "res", "nested_coe"))
    lim = (cfg.get("per_class") or {}).get(K)
    if lim is not None and n_K > lim:
        S.add("MAX_ATTEMPTS_PER_CLASS")
    if K == "UNKNOWN":
        U = cfg.get("max_unknown")
        if U is not None and n_K > U:
            S.add("MAX_UNKNOWN_ATTEMPTS")
    if a.t_end - cf.t0 >= cfg["deadline_us"]:
        S.add("DEADLINE_EXCEEDED")
    if K not in (cfg.get("table") or {}) and not cfg.get("default"):
        S.add("NO_STRATEGY")
    if a.k >= cfg["max_attempts"]:
        S.add("MAX_ATTEMPTS_GLOBAL")
    return S


def delivered_stop_reason(cf: CallFacts):
    """(reason or None, source) -- what the caller was told."""
    end = cf.end
    if end is None:
        return None, None
    if end["how"] == "outcome":
        return end["out"]["stop_reason"], "outcome"
    if end["how"] == "raise":
        exc = end["exc"]
        if "ree" in exc:
            return exc["ree"]["stop_reason"], "RetryExhaustedError"
        if exc["type"] == "AbortRetryError":
            return "ABORTED", "AbortRetryError"
    return None, None


def terminal_tag(cf: CallFacts):
    """stop_reason tag of the last terminal metric/log event, if hooks were attached."""
    for src in (cf.metrics(), cf.logs()):
        for e in reversed(src):
            if e["event"] in TERMINAL_EVENTS:
                tags = e.get("tags") if e["ev"] == "METRIC" else e.get("fields")
                return tags.get("stop_reason"), e["event"]
    return None, None


# ---------------------------------------------------------------------------
# Richer per-attempt analysis shared by the oracles
# ---------------------------------------------------------------------------
import math  # noqa: E402


class Info:
    """Everything observable about what the library did after one attempt."""

    def __init__(self, cfg, cf, idx, grants=None):
        a = cf.attempts[idx]
        self.a = a
        self.k = a.k
        self.idx = idx
        self.nxt = cf.attempts[idx + 1] if idx + 1 < len(cf.attempts) else None
        self.last = self.nxt is None
        post = list(a.post())
        self.post = post
        self.e_us = None if a.t_end is None else a.t_end - cf.t0
        self.classified = a.fclass is not None and a.kind in ("exc", "res")
        self.S = static_holds(cfg, cf, idx) if self.classified else set()
        self.strategies = [e for e in post if e["ev"] == "STRATEGY"]
        self.budgets = [e for e in post if e["ev"] == "BUDGET" and not e.get("ext")]   # ext: another consumer's turn
        self.granted = [e for e in self.budgets if e["granted"]]
        self.refused = [e for e in self.budgets if not e["granted"]]
        self.retry_metrics = [e for e in post if e["ev"] == "METRIC" and e["event"] == "retry"]
        self.retry_logs = [e for e in post if e["ev"] == "LOG" and e["event"] == "retry"]
        self.n_retry = max(len(self.retry_metrics), len(self.retry_logs))
        self.handlers = [e for e in post if e["ev"] == "HANDLER"]
        self.before = [e for e in post if e["ev"] == "BEFORE_SLEEP"]
        self.sleeps = [e for e in post if e["ev"] == "SLEEP_BEGIN"]
        self.sleep_ends = [e for e in post if e["ev"] == "SLEEP_END"]
        self.polls = [e for e in post if e["ev"] == "POLL"]
        t = [e for e in self.polls if e["ans"]]
        self.first_true = t[0]["seq"] if t else None
        # the failure was *recorded* by the loop: classified and not cut short by the
        # abort poll that immediately follows the failure
        self.recorded = self.classified and not (self.polls and self.polls[0]["ans"])
        self.decision = self.handlers[0]["decision"] if self.handlers else "S"
        self.after_sleep_us = (self.sleep_ends[-1]["t"] - cf.t0) if self.sleep_ends else None
        self.overshoot = sum(e["overshoot"] for e in self.sleep_ends)
        D = cfg["deadline_us"]
        self.deadline_after_sleep = self.after_sleep_us is not None and self.after_sleep_us > D
        has_budget = cfg.get("budget") is not None
        self.permitted = self.classified and not self.S and (not has_budget or bool(self.budgets and self.budgets[0]["granted"]))
        self.continues = (self.permitted and self.decision == "S" and self.first_true is None
                          and not self.deadline_after_sleep)
        # a retry was granted (observable even without hooks)
        # (a budget token alone is not evidence of a granted retry: phantom grants are C10/C03's business)
        self.retry_granted = bool(self.n_retry or self.handlers or self.before or self.sleeps)
        holds = set(self.S)
        if self.refused:
            holds.add("BUDGET_EXHAUSTED")
        elif has_budget and grants is not None and a.end is not None:
            # the condition itself, not the way the library learnt of it: the window is full when this attempt ended
            b = cfg["budget"]
            # (a grant aged exactly window_s sits on a float-rounding boundary off the dyadic grid: counted as live here)
            ref = post[-1] if post else a.end     # up to the moment the stop was reported (another consumer may act in between)
            live = sum(c for (sq, t, c) in grants if sq <= ref["seq"] and ref["t"] - t <= b["window_us"])
            if live + 1 > b["max"]:
                holds.add("BUDGET_EXHAUSTED")
        if self.first_true is not None or self.decision == "A" or a.kind == "abort":
            holds.add("ABORTED")
        if self.decision == "D":
            holds.add("SCHEDULED")
        if self.deadline_after_sleep:
            holds.add("DEADLINE_EXCEEDED")
        self.holds = holds
        # expected applied delay (C05 R4) from the strategy's raw return
        self.expected_delay = None
        if self.strategies and self.e_us is not None:
            raw = self.strategies[0]["raw"]
            raw = float(raw) if isinstance(raw, str) else float(raw)
            rem = (D - self.e_us) / 10**6
            v = raw if math.isfinite(raw) else 0.0
            v = max(0.0, v)
            self.expected_delay = min(v, rem)
            self.remaining_s = rem

    @property
    def applied(self):
        """the delay the library actually applied/announced (first witness)"""
        for lst, key in ((self.sleeps, "delay"), (self.handlers, "sleep_s"), (self.before, "sleep_s"),
                         (self.retry_metrics, "sleep_s")):
            if lst:
                return lst[0][key]
        if self.retry_logs:
            return self.retry_logs[0]["fields"].get("sleep_s")
        return None


def analyze(scn, trace):
    """-> {cid: (CallFacts, [Info...])}"""
    out = {}
    calls = split_calls(trace)
    grants = [(e["seq"], e["t"], e["cost"]) for e in trace if e["ev"] == "BUDGET" and e["granted"]]
    for cid in sorted(calls):
        cf = calls[cid]
        infos = [Info(scn["cfg"], cf, i, grants) for i in range(len(cf.attempts))] if cf.begin is not None else []
        out[cid] = (cf, infos)
    return out


def pre_aborted(cf) -> bool:
    """an abort poll answered True before the first attempt"""
    return any(e["ev"] == "POLL" and e["ans"] for e in cf.pre)


def rejected(cf) -> bool:
    return any(e["ev"] == "BREAKER" and e["m"] == "allow" and not e["ret"] for e in cf.pre)


def entry_name(scn):
    return f"{scn['mode']}:{scn['entry']}.{scn['how']}"


def V(rule, sig, detail):
    return {"rule": rule, "sig": sig, "detail": detail}


def final_failure_candidates(infos):
    """Acceptable descriptions of "the final failure" of a run.

    The loop polls abort_if right after an attempt ends; whether that attempt's
    failure is recorded before or after that poll is an implementation choice the
    statements do not fix.  So when the last failed attempt was immediately
    followed by an abort poll answering True, both "that attempt" (if its class is
    observable) and "the previous recorded failure / none" are accepted."""
    rec = [i for i in infos if i.recorded]
    cands = [rec[-1] if rec else None]
    if infos:
        last = infos[-1]
        if last.a.kind in ("exc", "res") and not last.recorded and last.polls and last.polls[0]["ans"]:
            cands.append(last)   # described as the final failure after all
    return cands


SLACK = 1e-9   # seconds: float noise allowance (the simulated clock's grid is 1e-6 s)


def feq(a, b):
    """float equality up to SLACK; hostile values (rendered as strings) compare textually"""
    if a is None or b is None:
        return a is b
    if isinstance(a, str) or isinstance(b, str):
        return str(a) == str(b)
    try:
        return abs(a - b) <= SLACK
    except TypeError:
        return a == b
