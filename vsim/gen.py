"""Seeded scenario generators (swarm style: every run draws which features
exist at all, sizes, workload mix and fault kinds).

A scenario is a plain JSON document; running it is a pure function of
(scenario, code).  `knobs` lets each property bias the swarm.
"""
from __future__ import annotations

import hashlib
import random

CLASSES = ["AUTH", "PERMISSION", "PERMANENT", "CONCURRENCY", "RATE_LIMIT", "SERVER_ERROR", "TRANSIENT", "UNKNOWN"]
RETRYABLE = ["CONCURRENCY", "RATE_LIMIT", "SERVER_ERROR", "TRANSIENT", "UNKNOWN"]
NONRETRY = ["AUTH", "PERMISSION", "PERMANENT"]

SYNC_ENTRIES = ["Retry", "Policy", "RetryPolicy", "Retry.context", "Policy.context", "RetryPolicy.context",
                "decorator", "Retry.from_config", "RetryPolicy.from_config"]
EXEC_ENTRIES = ["Retry", "Policy", "RetryPolicy", "Retry.from_config", "RetryPolicy.from_config"]


def derive_seed(master: int, prop: str, i: int) -> int:
    h = hashlib.sha256(f"{master}:{prop}:{i}".encode()).digest()
    return int.from_bytes(h[:8], "big")


GRID = [0, 1, 1000, 10_000, 100_000, 250_000, 500_000, 1_000_000, 2_000_000, 5_000_000]


def _dur(r: random.Random) -> int:
    x = r.random()
    if x < 0.35:
        return 0
    if x < 0.8:
        return r.choice(GRID)
    return r.randrange(0, 3_000_000)


def _value(r: random.Random, hostile: float) -> object:
    x = r.random()
    if x < hostile:
        return r.choice(["nan", "inf", "-inf", -1, -1_000_000, -r.randrange(1, 10**7), 10**12, 10**9])
    if x < hostile + 0.15:
        return 0
    if x < hostile + 0.65:
        return r.choice(GRID)
    return r.randrange(0, 4_000_000)


def gen_cfg(r: random.Random, kn: dict) -> dict:
    x = r.random()
    if x < kn.get("p_zero_attempts", 0.0):
        max_attempts = r.choice([0, 0, -1])
    elif x < 0.75:
        max_attempts = r.randint(1, 5)
    else:
        max_attempts = r.randint(1, 8)
    cfg = {"max_attempts": max_attempts}
    cfg["max_unknown"] = r.choice([None, None, 0, 1, 2, 2, 3])
    pc = {}
    if r.random() < kn.get("p_per_class", 0.5):
        for c in r.sample(CLASSES, r.randint(1, 3)):
            pc[c] = r.choice([0, 1, 1, 2, 3])
    if kn.get("p_long") and r.random() < kn["p_long"]:
        # long calls: tens of attempts, caps of the same order (counters must not saturate / roll over)
        cfg["max_attempts"] = r.randint(12, 48)
        cfg["max_unknown"] = r.choice([None, 1, r.randint(8, 30)])
        pc = {c: r.choice([1, 2, r.randint(8, 30)]) for c in r.sample(CLASSES, r.randint(0, 3))}
        cfg["long"] = True
    cfg["per_class"] = pc
    # strategies
    default = r.choice(["ctx", "legacy"]) if r.random() < kn.get("p_default", 0.8) else None
    table = {}
    if default is None or r.random() < 0.5:
        for c in r.sample(CLASSES, r.randint(0 if default else 0, 4)):
            table[c] = r.choice(["ctx", "legacy"])
    cfg["default"] = default
    cfg["table"] = table
    cfg["cls_shape"] = r.choice(["enum", "obj"])
    cfg["result_classifier"] = r.random() < kn.get("p_result", 0.6)
    cfg["budget"] = None
    if r.random() < kn.get("p_budget", 0.3):
        cfg["budget"] = {"max": r.choice([0, 1, 1, 2, 3, 5, 8]), "window_us": r.choice([1_000_000, 2_000_000, 5_000_000, 60_000_000])}
    cfg["breaker"] = None
    cfg["feedback"] = r.random() < kn.get("p_feedback", 0.2)
    return cfg


def gen_attempts(r: random.Random, cfg: dict, kn: dict, n: int) -> list[dict]:
    """Per-attempt script of length n (>= max_attempts+1 so a bug that makes an
    extra attempt still has a script to play)."""
    style = r.random()
    p_ok = kn.get("p_ok", 0.12)
    favour = r.choice(CLASSES)
    if cfg.get("long"):
        # mostly one retryable class (so its counter really gets large), few successes
        style, p_ok = (0.0 if r.random() < 0.7 else style), p_ok / 4
        favour = r.choice(list(cfg["per_class"]) + RETRYABLE)
    out = []
    for i in range(n):
        x = r.random()
        if x < p_ok and i > 0 or (i == 0 and x < p_ok / 3):
            st = {"kind": "ok", "dur": _dur(r)}
            if r.random() < kn.get("p_aw_value", 0.1):
                st["aw"] = True
            out.append(st)
            continue
        if style < 0.3:
            cls = favour if r.random() < 0.8 else r.choice(CLASSES)
        elif style < 0.75:
            cls = r.choice(RETRYABLE) if r.random() < kn.get("p_retryable", 0.85) else r.choice(NONRETRY)
        else:
            cls = r.choice(CLASSES)
        kind = "res" if (cfg["result_classifier"] and r.random() < 0.45) else "exc"
        step = {"kind": kind, "cls": cls, "dur": _dur(r)}
        if kind == "res" and r.random() < kn.get("p_none_result", 0.12):
            step["none"] = True
        if kind == "exc" and r.random() < kn.get("p_timeout_type", 0.1):
            step["timeout_type"] = True
        elif kind == "exc" and r.random() < kn.get("p_falsy_exc", 0.06):
            step["falsy"] = True
        elif kind == "exc" and kn.get("p_frozen_exc") and r.random() < kn["p_frozen_exc"]:
            step["frozen"] = True
        elif kind == "exc" and r.random() < kn.get("p_builtin_base", 0.08):
            step[r.choice(["rt", "oserr"])] = True      # the failure is also a RuntimeError / OSError
        if kind == "exc" and r.random() < kn.get("p_reuse_exc", 0.1):
            step["reuse"] = True
        if r.random() < kn.get("p_ra", 0.15):
            step["ra"] = r.choice(GRID)
        out.append(step)
    return out


def gen_call(r: random.Random, cfg: dict, kn: dict) -> dict:
    n = max(cfg["max_attempts"], 0) + 2
    call = {"attempts": gen_attempts(r, cfg, kn, n)}
    hostile = kn.get("p_hostile", 0.12)
    call["values"] = [_value(r, hostile) for _ in range(r.randint(1, min(n, 10)))]
    if cfg.get("long"):
        call["values"] = [r.choice([0, 0, 1, 1000]) for _ in range(r.randint(1, 3))]
    if r.random() < kn.get("p_overshoot", 0.3):
        call["overshoot"] = [r.choice([0, 0, 1, 1000, 500_000, r.randrange(0, 2_000_000)]) for _ in range(r.randint(1, 3))]
    else:
        call["overshoot"] = [0]
    call["decisions"] = []
    if r.random() < kn.get("p_decisions", 0.5):
        m = 0 if r.random() < kn.get("p_decide_first", 0.25) else r.randint(0, n)
        call["decisions"] = ["S"] * m + [r.choice(["D", "A", "S"])]
    call["abort_at"] = None
    if r.random() < kn.get("p_abort", 0.2):
        call["abort_at"] = r.randint(0, 3 * n + 1)
    return call


def tune_deadline(r: random.Random, cfg: dict, calls: list[dict], kn: dict) -> None:
    """Pick deadline_us; with some probability steer a boundary (elapsed ==
    deadline -1/0/+1 us at a failure or after a sleep) using a rough forecast of
    the first call's timeline."""
    x = r.random()
    if x < kn.get("p_generous", 0.5):
        cfg["deadline_us"] = r.choice([60_000_000, 120_000_000, 3_600_000_000])
        return
    if x < kn.get("p_generous", 0.5) + 0.08:
        cfg["deadline_us"] = r.choice([0, 1, 1000])
        return
    # forecast instants at which the library looks at the clock
    call = calls[0]
    t = 0
    instants = []
    vals = call["values"]
    ov = call["overshoot"]
    j = 0
    for i, st in enumerate(call["attempts"][: max(cfg["max_attempts"], 1)]):
        t += st.get("dur", 0)
        instants.append(t)
        if st["kind"] == "ok":
            break
        v = vals[j % len(vals)]
        v = 0 if isinstance(v, str) or v < 0 else v
        t += min(v, 3_000_000) + ov[j % len(ov)]
        j += 1
        instants.append(t)
    target = r.choice(instants) if instants else 1_000_000
    cfg["deadline_us"] = max(0, target + r.choice([-1, 0, 0, 1, r.randrange(-1000, 1000), r.randrange(0, 2_000_000)]))


def gen_place(r: random.Random, kn: dict, mode: str) -> dict:
    pl = ["none", "policy", "call", "both"]
    place = {
        "handler": r.choice(pl) if r.random() < kn.get("p_handler", 0.5) else "none",
        "before_sleep": r.choice(pl) if r.random() < kn.get("p_before_sleep", 0.5) else "none",
        "sleeper": r.choice(pl) if r.random() < kn.get("p_sleeper", 0.85) else "none",
        "att_hooks": r.choice(pl) if r.random() < kn.get("p_att_hooks", 0.3) else "none",
    }
    if mode == "async":
        place["bs_async"] = r.choice([False, False, True, True, "aw"])
        place["sleeper_kind"] = r.choice(["async", "async", "sync", "aw"])
    return place


def gen_hooks(r: random.Random, kn: dict, how: str) -> dict:
    return {
        "shape": r.choice(["method", "method", "partial", "object"]),
        "on_metric": r.random() < kn.get("p_metric", 0.7),
        "on_log": r.random() < kn.get("p_log", 0.6),
        "operation": r.choice([None, "op", "fetch"]),
        "timeline": (r.choice([None, True, "obj"]) if how == "execute" else None),
        "abort_if": r.random() < kn.get("p_abort_if", 0.5),
        "abort_shape": r.choice(["method", "method", "partial", "sized"]),
    }


def gen_clock(r: random.Random, kn: dict) -> dict:
    ck = {"base_us": r.choice([0, 1_000_000, r.randrange(0, 10**12)]), "skew_us": r.choice([0, r.randrange(-10**12, 10**12)])}
    if r.random() < kn.get("p_wall_jumps", 0.2):
        ck["jumps"] = [r.choice([0, 0, 1_000_000, -1_000_000, 86_400_000_000, -86_400_000_000, r.randrange(-10**9, 10**9)])
                       for _ in range(r.randint(1, 5))]
    return ck


def gen_retry(seed: int, kn: dict | None = None) -> dict:
    kn = kn or {}
    r = random.Random(seed)
    mode = r.choice(kn.get("modes", ["sync", "async"]))
    how = r.choice(kn.get("hows", ["call", "execute"]))
    entries = kn.get("entries") or (EXEC_ENTRIES if how == "execute" else SYNC_ENTRIES)
    entries = [e for e in entries if how == "call" or e in EXEC_ENTRIES]
    entry = r.choice(entries)
    cfg = gen_cfg(r, kn)
    ncalls = 1 if r.random() < kn.get("p_single_call", 0.7) else r.randint(2, kn.get("max_calls", 3))
    calls = [gen_call(r, cfg, kn) for _ in range(ncalls)]
    tune_deadline(r, cfg, calls, kn)
    hooks = gen_hooks(r, kn, how)
    if not hooks["abort_if"]:
        for c in calls:
            c["abort_at"] = None
    place = gen_place(r, kn, mode)
    if place["handler"] == "none":
        for c in calls:
            c["decisions"] = []
    if cfg["budget"] is not None:
        # prefill: other callers already hold tokens of various ages
        b = cfg["budget"]
        if r.random() < 0.6:
            k = r.randint(0, b["max"] + 1)
            w = b["window_us"]
            ages = sorted((r.choice([w, w - 1, w + 1, w // 2, r.randrange(0, w + 1)]) for _ in range(k)), reverse=True)
            b["prefill"] = ages
    for i, c in enumerate(calls[1:], 1):
        c["before"] = [["adv", r.choice([0, 1000, 1_000_000, 61_000_000])]]
    if cfg["feedback"] and kn.get("p_slow_feedback") and r.random() < kn["p_slow_feedback"]:
        for c in calls:
            c["fb_dur"] = [r.choice([0, 1, 1, 1000, 100_000, 500_000, 2_000_000]) for _ in range(r.randint(1, 3))]
    if r.random() < kn.get("p_attempt_timeout", 0.0):
        # never fires (operations take <= 3 s of virtual time and no real time): sync = real worker-thread path
        # of _call_with_timeout, async = asyncio.wait_for on the SimLoop
        cfg["attempt_timeout_us"] = r.choice([10_000_000, 60_000_000, 3_600_000_000, 2 * cfg["deadline_us"] + 10_000_000])
    if r.random() < kn.get("p_firing_timeout", 0.0):
        # per-attempt timeouts that DO fire (operation durations go up to 3 s): sync = simulated single-worker pool
        # behind _call_with_timeout, async = asyncio.wait_for on the SimLoop; the classifier maps the library's
        # TimeoutError to `timeout_cls`
        cfg["attempt_timeout_us"] = r.choice([250_000, 1_000_000, 2_000_000])
        cfg["timeouts_fire"] = True
        cfg["timeout_cls"] = r.choice(CLASSES)
        for c in calls:
            for st in c["attempts"]:
                st.pop("parts", None)
                if r.random() < 0.4:
                    st["dur"] = cfg["attempt_timeout_us"] + r.choice([1, 1000, 500_000, 2_000_000])
    scn = {"kind": "retry", "seed": seed, "mode": mode, "entry": entry, "how": how, "cfg": cfg,
           "place": place, "hooks": hooks, "clock": gen_clock(r, kn), "calls": calls}
    if cfg["budget"] and cfg["budget"].get("prefill"):
        ages = cfg["budget"]["prefill"]
        pre = []
        prev = ages[0]
        for a in ages:
            if prev - a:
                pre.append(["adv", prev - a])
            pre.append(["consume", 1])
            prev = a
        if prev:
            pre.append(["adv", prev])
        scn["pre"] = pre
    if cfg["budget"] is not None and r.random() < kn.get("p_ext_consume", 0.15):
        # another consumer sharing the budget takes a token exactly while the strategy is being evaluated
        for c in calls:
            c["ext_consume"] = sorted(r.sample(range(0, 4), r.randint(1, 2)))
    if place["sleeper"] != "none" and r.random() < kn.get("p_sized_sleeper", 0.08):
        place["sleeper_shape"] = "sized"
    if place["handler"] != "none" and r.random() < kn.get("p_sized_handler", 0.06):
        place["handler_shape"] = "sized"
    if place["before_sleep"] != "none" and r.random() < kn.get("p_sized_handler", 0.06):
        place["bs_shape"] = "sized"
    if r.random() < kn.get("p_cls_details", 0.08):
        cfg["cls_shape"] = "obj_details"
    elif r.random() < kn.get("p_cls_shared", 0.08):
        cfg["cls_shape"] = "obj_shared"
    if cfg.get("strat_shape") is None and r.random() < kn.get("p_bound_strategy", 0.08):
        cfg["strat_shape"] = "bound"
    if cfg["result_classifier"] and r.random() < kn.get("p_res_exc", 0.08):
        for c in calls:
            for st in c["attempts"]:
                if st["kind"] == "res" and not st.get("none"):
                    st["as_exc"] = True           # the failing value is an exception instance that was returned, not raised
    if r.random() < kn.get("p_long_deadline", 0.06):
        cfg["deadline_us"] = r.choice([90_000_000_000, 176_400_000_000, 604_830_000_000])     # 25 h, 49 h, 7 d + 30 s
        for c in calls:
            c["values"] = [r.choice([7_200_000_000, 3_600_000_000, 60_000_000, 86_400_000_000, 10**12]) for _ in range(r.randint(1, 3))]
    if r.random() < kn.get("p_reuse_refreshed", 0.06):
        for c in calls:
            for st in c["attempts"]:
                if st["kind"] == "exc" and not (st.get("timeout_type") or st.get("falsy") or st.get("frozen")) and r.random() < 0.5:
                    st["reuse_refreshed"] = True
    if kn.get("p_slow_strategy") and r.random() < kn["p_slow_strategy"]:
        for c in calls:
            c["strategy_dur"] = [r.choice([0, 1000, 250_000, 1_000_000]) for _ in range(r.randint(1, 3))]
    if r.random() < kn.get("p_sized_strategy", 0.08):
        cfg["strat_shape"] = "sized"
    if place["handler"] != "none" and kn.get("p_slow_handler") and r.random() < kn["p_slow_handler"]:
        for c in calls:
            c["handler_dur"] = [r.choice([0, 1000, 250_000, 500_000, 2_000_000]) for _ in range(r.randint(1, 3))]
    if ncalls > 1 and entry.endswith(".context") and r.random() < kn.get("p_reuse_context", 0.5):
        scn["reuse_context"] = True
    if r.random() < kn.get("p_late", 0.1):
        # some settings reach the live policy object only after construction (attribute assignment through the entry
        # object: the facades forward to their retry component); decorator / from_config entries are built complete
        place["late"] = r.sample(["budget", "sleep", "before_sleep", "sleeper", "result_classifier", "max_unknown_attempts", "deadline", "max_attempts",
                                  "classifier"], r.randint(1, 3))
    return scn
