"""Reference models: tiny, sequential, written from the property statements.

Time is integer microseconds.  Rolling windows are half-open: an entry aged
exactly `window` is out (DESIGN §8.4: the only reading under which both halves
of C10 can hold, and the one the statements' "within the last window_s
seconds" suggests).
"""
from __future__ import annotations


class RefBudget:
    def __init__(self, max_retries: int, window_us: int) -> None:
        self.max = max_retries
        self.w = window_us
        self.stamps: list[int] = []

    def count(self, now: int) -> int:
        return sum(1 for t in self.stamps if now - t < self.w)

    def consume(self, now: int, cost: int = 1) -> bool:
        self.stamps = [t for t in self.stamps if now - t < self.w]
        if len(self.stamps) + cost > self.max:
            return False
        self.stamps.extend([now] * cost)
        return True

    def remaining(self, now: int) -> int:
        return max(self.max - self.count(now), 0)


class RefBreaker:
    """closed / open(t0) / half_open(probe in flight?)."""

    def __init__(self, failure_threshold=5, window_us=60_000_000, recovery_us=30_000_000, trip_on=None, class_thresholds=None):
        self.F = failure_threshold
        self.w = window_us
        self.R = recovery_us
        self.classT = dict(class_thresholds or {})
        trip = set(trip_on) if trip_on is not None else {"TRANSIENT", "SERVER_ERROR"}
        self.trip = trip | set(self.classT)
        self.state = "closed"
        self.opened_at = None
        self.probe = False
        self.hist: list[tuple[int, str]] = []   # (time, class) of counted failures since last transition

    def allow(self, now: int):
        """-> (admitted, event)"""
        if self.state == "open":
            if now - self.opened_at >= self.R:
                self.state = "half_open"
                self.probe = True
                return True, "circuit_half_open"
            return False, "circuit_rejected"
        if self.state == "half_open":
            if self.probe:
                return False, "circuit_rejected"
            self.probe = True
            return True, None
        return True, None

    def record_success(self, now: int):
        if self.state == "half_open":
            self.state = "closed"
            self.opened_at = None
            self.probe = False
            self.hist = []
            return "circuit_closed"
        return None

    def record_failure(self, now: int, klass: str):
        if self.state == "half_open":
            self.state = "open"
            self.opened_at = now
            self.probe = False
            self.hist = []
            return "circuit_opened"
        if self.state == "open":
            return None   # statement is silent; mirrors the code (documented)
        if klass not in self.trip:
            return None
        self.hist.append((now, klass))
        live = [(t, k) for (t, k) in self.hist if now - t < self.w]
        n_all = len(live)
        n_cls = sum(1 for (_, k) in live if k == klass)
        if (klass in self.classT and n_cls >= self.classT[klass]) or n_all >= self.F:
            self.state = "open"
            self.opened_at = now
            self.hist = []
            return "circuit_opened"
        return None

    def record_cancel(self, now: int):
        if self.state == "half_open":
            self.probe = False
        return None
