"""Generic delta-debugging over the scenario JSON while the same
(property, rule, signature) persists.  Candidates that crash the harness or
change the violation are rejected; <= `cap` re-executions per failure."""
from __future__ import annotations

import copy

MINLEN = {"calls": 1, "attempts": 1, "values": 1, "overshoot": 1, "threads": 1, "ops": 0}
SIMPLE = {
    "cls": ["TRANSIENT"], "kind": ["exc"],
    "entry": ["Retry", "Policy"], "mode": ["sync"],
    "handler": ["none"], "before_sleep": ["none"], "sleeper": ["policy", "none"], "att_hooks": ["none"],
    "cls_shape": ["enum"], "default": ["ctx"],
    "operation": [None], "timeline": [None], "abort_at": [None], "max_unknown": [None],
    "budget": [None], "prefill": [None], "jumps": [None], "pre": [None], "before": [None],
    "deadline_us": [60_000_000, 1_000_000], "max_attempts": [1, 2, 3],
    "per_class": [{}], "table": [{}],
    "bs_async": [False], "sleeper_kind": ["async"], "concurrent": [False],
    "ra": [None, 0], "parts": [1],
}
PROTECTED = {"seed", "kind_top", "property", "exc", "site", "how", "schedule"}


def _paths(obj, path=()):
    """Yield (path, value) for every node, parents before children."""
    yield path, obj
    if isinstance(obj, dict):
        for k in sorted(obj, key=str):
            yield from _paths(obj[k], path + (k,))
    elif isinstance(obj, list):
        for i, v in enumerate(obj):
            yield from _paths(v, path + (i,))


def _get(obj, path):
    for p in path:
        obj = obj[p]
    return obj


def _set(obj, path, value):
    for p in path[:-1]:
        obj = obj[p]
    obj[path[-1]] = value


def _delete(obj, path):
    for p in path[:-1]:
        obj = obj[p]
    del obj[path[-1]]


def candidates(scn):
    grid = scn.get("grid") if isinstance(scn, dict) else None
    for path, val in list(_paths(scn)):
        if not path:
            continue
        key = path[-1]
        pkey = next((p for p in reversed(path) if isinstance(p, str)), None)
        if isinstance(key, str) and key in PROTECTED:
            continue
        if key == "kind" and "attempts" not in path:
            continue
        if isinstance(val, list):
            name = key if isinstance(key, str) else pkey
            if len(val) > MINLEN.get(name, 0):
                if len(val) > 3:
                    c = copy.deepcopy(scn)
                    _set(c, path, val[: max(MINLEN.get(name, 0), len(val) // 2)])
                    yield c
                for i in reversed(range(len(val))):
                    c = copy.deepcopy(scn)
                    _delete(c, path + (i,))
                    yield c
            continue
        if isinstance(key, str) and key in SIMPLE:
            for s in SIMPLE[key]:
                if s != val and not (key == "max_attempts" and isinstance(val, int) and s >= val):
                    c = copy.deepcopy(scn)
                    _set(c, path, copy.deepcopy(s))
                    yield c
            if key not in ("deadline_us",):
                continue
            if grid:
                continue
        if isinstance(val, bool):
            if val:
                c = copy.deepcopy(scn)
                _set(c, path, False)
                yield c
        elif isinstance(val, int):
            for s in (0, 1_000_000, val // 2, val - 1 if abs(val) < 16 else None):
                if grid and s is not None and abs(val) >= 1000 and s % grid:
                    continue
                if s is not None and s != val and abs(s) <= abs(val):
                    c = copy.deepcopy(scn)
                    _set(c, path, s)
                    yield c
        elif isinstance(val, str) and key in ("nan", "inf") or (isinstance(val, str) and val in ("nan", "inf", "-inf") and False):
            pass


def shrink(scn, still_fails, cap=400):
    """still_fails(candidate) -> bool.  Returns (smaller scenario, executions).

    Greedy passes; after an accepted candidate the candidate list is
    regenerated and scanning resumes at the same position (not from 0)."""
    cur = copy.deepcopy(scn)
    n = 0
    progress = True
    while progress and n < cap:
        progress = False
        pos = 0
        while n < cap:
            cands = list(candidates(cur))
            if pos >= len(cands):
                break
            accepted = False
            for j in range(pos, len(cands)):
                if n >= cap:
                    break
                n += 1
                try:
                    ok = still_fails(cands[j])
                except Exception:
                    ok = False
                if ok:
                    cur = cands[j]
                    pos = j
                    accepted = True
                    progress = True
                    break
            if not accepted:
                break
    return cur, n
