"""Process bootstrap: put the working tree first on sys.path, pin the hash seed.

Every check must exercise the *current working tree* of the repository
($VERIF_REPO, default /repo).  redress is pure Python, so "rebuilding" means
importing the sources from that tree; we assert the import really came from
there.
"""
from __future__ import annotations

import os
import sys

_DONE = False


def repo_root() -> str:
    return os.path.realpath(os.environ.get("VERIF_REPO", "/repo"))


def setup(reexec: bool = True) -> None:
    global _DONE
    if _DONE:
        return
    if reexec and os.environ.get("PYTHONHASHSEED") != os.environ.get("VERIF_HASHSEED", "0"):
        env = dict(os.environ)
        env["PYTHONHASHSEED"] = os.environ.get("VERIF_HASHSEED", "0")
        env["PYTHONDONTWRITEBYTECODE"] = "1"
        os.execve(sys.executable, [sys.executable] + sys.argv, env)
    sys.dont_write_bytecode = True
    src = os.path.join(repo_root(), "src")
    if not os.path.isdir(os.path.join(src, "redress")):
        print(f"HARNESS-ERROR: no redress sources under {src}", flush=True)
        sys.exit(3)
    sys.path.insert(0, src)
    for name in [m for m in sys.modules if m == "redress" or m.startswith("redress.")]:
        del sys.modules[name]
    import redress  # noqa: F401

    origin = os.path.realpath(redress.__file__)
    if not origin.startswith(src + os.sep):
        print(f"HARNESS-ERROR: redress imported from {origin}, expected under {src}", flush=True)
        sys.exit(3)
    _DONE = True
