"""Virtual clocks.  All time in the simulation is integer microseconds.

`mono_us` only moves forward.  The wall clock is `mono_us + skew_us`; a
*wall jump* fault changes `skew_us` (in either direction) between any two
events.  `monotonic()`/`wall()` return float seconds; because redress turns
elapsed time into `timedelta` (microsecond resolution, correctly rounded) every
comparison the library makes is exact on this grid and the oracles redo the
same arithmetic on the integers.
"""
from __future__ import annotations


class SimClock:
    __slots__ = ("base_us", "mono_us", "skew_us", "jumps", "_jump_i", "n_wall_jumps", "n_wall_reads")

    def __init__(self, base_us: int = 0, skew_us: int = 0, jumps=None) -> None:
        self.base_us = int(base_us)
        self.mono_us = int(base_us)
        self.skew_us = int(skew_us)
        # wall-jump plan: list of signed microsecond deltas applied one per
        # *monotonic read* (cyclic) -- i.e. between any two library actions.
        self.jumps = list(jumps or [])
        self._jump_i = 0
        self.n_wall_jumps = 0
        self.n_wall_reads = 0

    # -- what the system under test reads -------------------------------
    def monotonic(self) -> float:
        if self.jumps:
            j = self.jumps[self._jump_i % len(self.jumps)]
            self._jump_i += 1
            if j:
                self.skew_us += j
                self.n_wall_jumps += 1
        return self.mono_us / 1e6

    def wall(self) -> float:
        self.n_wall_reads += 1
        return (self.mono_us + self.skew_us) / 1e6

    # -- what the simulator uses ---------------------------------------
    def now_us(self) -> int:
        return self.mono_us

    def rel_us(self) -> int:
        return self.mono_us - self.base_us

    def advance(self, us: int) -> None:
        if us < 0:
            raise AssertionError("monotonic clock cannot go backwards")
        self.mono_us += int(us)

    def set_at_least(self, us: int) -> None:
        if us > self.mono_us:
            self.mono_us = int(us)


def sec_to_us(s: float) -> int:
    """Virtual duration of a sleep of `s` seconds (robust to hostile values)."""
    try:
        if s != s or s in (float("inf"), float("-inf")):
            return 0
        v = int(round(s * 1e6))
    except (TypeError, ValueError, OverflowError):
        return 0
    return v if v > 0 else 0
