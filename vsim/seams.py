"""Seam installer: every source of nondeterminism redress reads is re-pointed
at simulator-owned objects.  No change to /repo is needed: the seams are the
module globals `time`, `random`, `asyncio` (retry_helpers only: asyncio.sleep),
`datetime` (extras/http.py) and `threading` (circuit.py / budget.py, thread
engine only), plus the explicit `clock=` parameters.
"""
from __future__ import annotations

import asyncio as _real_asyncio
from concurrent.futures import ThreadPoolExecutor as _REAL_TPE
import datetime as _real_datetime
import random as _real_random
import sys
import threading as _real_threading
import time as _real_time
import types

_REAL_SLEEP = _real_time.sleep
_REAL_MONOTONIC = _real_time.monotonic
_REAL_TIME = _real_time.time


class HarnessError(Exception):
    """Something is wrong with the simulator itself (never a VIOLATION)."""


class _Binding:
    """What the shims currently talk to."""

    clock = None          # SimClock
    env = None            # object with default_sleep / default_async_sleep / next_draw
    installed = False
    threads = None        # thread engine (for SimLock), or None


B = _Binding()


class TimeShim:
    """Stands in for the `time` module inside redress modules."""

    def monotonic(self) -> float:
        return B.clock.monotonic()

    def perf_counter(self) -> float:
        return B.clock.monotonic()

    def time(self) -> float:
        return B.clock.wall()

    def sleep(self, s: float) -> None:
        env = B.env
        if env is None:
            B.clock.advance(max(0, int(round(s * 1e6))))
            return
        env.default_sleep(s)

    def __getattr__(self, name):  # anything else: harmless pass-through
        if name in ("monotonic_ns", "time_ns", "perf_counter_ns", "process_time"):
            raise HarnessError(f"redress read un-simulated time.{name}")
        return getattr(_real_time, name)


TIME = TimeShim()


class AsyncioShim:
    """Stands in for `asyncio` in policy/retry_helpers.py (default async sleeper)."""

    def sleep(self, delay, result=None):
        env = B.env
        if env is None:
            return _real_asyncio.sleep(delay, result)
        return env.default_async_sleep(delay)

    def __getattr__(self, name):
        return getattr(_real_asyncio, name)


ASYNCIO = AsyncioShim()


class ScriptedRandom(_real_random.Random):
    """`random` stand-in: every draw comes from the scenario."""

    def random(self) -> float:
        env = B.env
        if env is None:
            return 0.5
        return env.next_draw()

    def getrandbits(self, k):  # pragma: no cover - not used by redress
        raise HarnessError("redress used random.getrandbits (un-simulated)")


RANDOM = ScriptedRandom()


class SimDateTime(_real_datetime.datetime):
    """datetime whose now() reads the simulated *wall* clock."""

    @classmethod
    def now(cls, tz=None):
        secs = B.clock.wall()
        base = _real_datetime.datetime(1970, 1, 1, tzinfo=_real_datetime.UTC)
        dt = base + _real_datetime.timedelta(microseconds=int(round(secs * 1e6)))
        if tz is None:
            return dt.replace(tzinfo=None)
        return dt.astimezone(tz)

    @classmethod
    def utcnow(cls):
        return cls.now(_real_datetime.UTC).replace(tzinfo=None)


class SimFuture:
    """Future of a simulated single-worker pool (discrete-event, virtual time)."""

    def __init__(self, ex, func):
        self.ex = ex
        self.func = func
        self._done = False
        self._exc = None
        self._res = None
        self._cancelled = False

    def result(self, timeout=None):
        if self._done:
            if self._exc is not None:
                raise self._exc
            return self._res
        env, clock = B.env, B.clock
        now = clock.mono_us
        start = max(now, self.ex.busy_until)            # when the single worker becomes free
        if timeout is not None:
            give_up = now + int(round(timeout * 1e6))
            if start > now and start >= give_up:
                clock.mono_us = give_up                 # still queued behind an abandoned operation
                raise TimeoutError()
        clock.mono_us = start
        st = env.peek_step()
        if st.get("kind") == "base" and st.get("signal"):
            # a signal handler raises in the WAITING thread while the operation keeps the worker busy
            self.ex.busy_until = start + st.get("dur", 0)
            env.op_sync_signalled()          # logs the started operation and raises the interruption here
        d = env.peek_op_dur()
        if timeout is None or start + d <= give_up:
            try:
                self._res = self.func()
            except BaseException as exc:  # noqa: BLE001 - a future stores whatever the callable raised
                self._exc = exc
            self._done = True
            if self._exc is not None:
                raise self._exc
            return self._res
        env.op_sync_abandoned(give_up - start)          # the operation starts, the wait gives up first
        self.ex.busy_until = start + d                  # ... and the abandoned operation keeps the worker busy
        raise TimeoutError()

    def done(self):
        return self._done

    def exception(self, timeout=None):
        return self._exc

    def cancel(self):
        self._cancelled = True
        return not self._done

    def cancelled(self):
        return self._cancelled


class SimExecutor:
    def __init__(self, max_workers=1, **kw):
        self.busy_until = 0

    def submit(self, func, *a, **k):
        return SimFuture(self, (lambda: func(*a, **k)) if (a or k) else func)

    def shutdown(self, wait=True, cancel_futures=False):
        if wait and self.busy_until > B.clock.mono_us:
            B.clock.mono_us = self.busy_until        # joining the worker: blocked until the running operation returns


def _executor_factory(*a, **k):
    """ThreadPoolExecutor stand-in inside redress.policy.runner.sync_core: simulated when the
    scenario lets per-attempt timeouts fire, the real thread pool otherwise."""
    env = B.env
    if env is not None and getattr(env, "cfg", None) and env.cfg.get("timeouts_fire"):
        return SimExecutor(*a, **k)
    return _REAL_TPE(*a, **k)


def _tripwire(_s):
    raise HarnessError("real time.sleep reached during a simulated run")


def _redress_modules():
    return [m for n, m in sorted(sys.modules.items())
            if (n == "redress" or n.startswith("redress.")) and isinstance(m, types.ModuleType)]


def install() -> None:
    """Idempotent; call after `import redress`."""
    import redress  # noqa: F401
    import redress.extras.http  # noqa: F401
    import redress.policy.retry_helpers as rh

    for mod in _redress_modules():
        g = mod.__dict__
        for k, v in list(g.items()):
            if v is _real_time:
                g[k] = TIME
            elif v is _real_random:
                g[k] = RANDOM
            elif v is _REAL_MONOTONIC or v is _real_time.perf_counter:
                g[k] = TIME.monotonic
            elif v is _REAL_TIME:
                g[k] = TIME.time
            elif v is _REAL_SLEEP:
                g[k] = TIME.sleep
            elif v is _real_datetime.datetime and mod.__name__ == "redress.extras.http":
                g[k] = SimDateTime
            elif v is _real_datetime and mod.__name__ == "redress.extras.http":
                raise HarnessError("extras/http.py imports the datetime module itself; seam missing")
            elif getattr(v, "__self__", None) is getattr(_real_random, "_inst", None) and v is not None \
                    and callable(v) and getattr(_real_random, "_inst", None) is not None:
                # `from random import uniform` style
                g[k] = getattr(RANDOM, v.__name__)
    if getattr(rh, "asyncio", None) is _real_asyncio:
        rh.asyncio = ASYNCIO
    import redress.policy.runner.sync_core as sc
    if getattr(sc, "ThreadPoolExecutor", None) is _REAL_TPE:
        sc.ThreadPoolExecutor = _executor_factory
    # default-argument clocks captured at def time
    from redress import circuit, strategies

    for fn in (circuit.CircuitBreaker.__init__, strategies.adaptive):
        kd = getattr(fn, "__kwdefaults__", None)
        if kd and kd.get("clock") is _REAL_MONOTONIC:
            kd["clock"] = TIME.monotonic
    ad = strategies.AdaptiveStrategy
    if getattr(ad, "clock", None) is _REAL_MONOTONIC:
        ad.clock = staticmethod(TIME.monotonic)
        init = ad.__init__
        if init.__defaults__:
            init.__defaults__ = tuple(TIME.monotonic if d is _REAL_MONOTONIC else d for d in init.__defaults__)
    _real_time.sleep = _tripwire
    B.installed = True
    audit()


def audit() -> None:
    """Every redress module global that is a real nondeterminism source must be gone."""
    inst = getattr(_real_random, "_inst", None)
    for mod in _redress_modules():
        if mod.__name__.startswith(("redress.cli", "redress.contrib", "redress.metrics")):
            continue
        for k, v in mod.__dict__.items():
            bad = None
            if v is _real_time or v is _real_random:
                bad = "module"
            elif v is _REAL_MONOTONIC or v is _REAL_TIME or v is _REAL_SLEEP:
                bad = "function"
            elif inst is not None and getattr(v, "__self__", None) is inst and callable(v):
                bad = "random function"
            elif mod.__name__ == "redress.extras.http" and v is _real_datetime.datetime:
                bad = "datetime"
            if bad:
                raise HarnessError(f"seam audit: {mod.__name__}.{k} is a real {bad}")


def bind(clock, env=None) -> None:
    B.clock = clock
    B.env = env


def real_sleep(s: float) -> None:  # for the harness only
    _REAL_SLEEP(s)


def install_threading(fake) -> None:
    from redress import budget, circuit, strategies

    for mod in (budget, circuit, strategies):
        if getattr(mod, "threading", None) is _real_threading:
            mod.threading = fake
