"""Drivers: build real redress objects from a scenario and run calls through a
chosen public entry point, on the sync driver or on the SimLoop."""
from __future__ import annotations

import asyncio
import functools
from datetime import timedelta

from redress import (
    AsyncPolicy,
    AsyncRetry,
    AsyncRetryPolicy,
    ErrorClass,
    Policy,
    Retry,
    RetryConfig,
    RetryExhaustedError,
    RetryPolicy,
    RetryTimeline,
    retry as retry_decorator,
)

from . import loop as simloop
from . import seams
from .clock import SimClock
from .env import CURRENT_CALL, RAISE_CODE, CallState, Env, FalsySpyBreaker, GateRecBreaker, RecBreaker, RecBudget, SpyBreaker, fnum

SYNC_ENTRIES = ["Retry", "Policy", "RetryPolicy", "Retry.context", "Policy.context", "RetryPolicy.context",
                "decorator", "Retry.from_config", "RetryPolicy.from_config"]
NORETRY = "Policy.noretry"


# ---------------------------------------------------------------------------
def _pick(place: str, policy_obj, call_obj):
    """placement -> (policy-level object, call-level object)"""
    return (policy_obj if place in ("policy", "both") else None,
            call_obj if place in ("call", "both") else None)


class _CallableObject:
    """a hook given as an instance with __call__ (no __name__ / __qualname__)"""

    def __init__(self, fn):
        self._fn = fn

    def __call__(self, *a, **k):
        return self._fn(*a, **k)


class _SizedCallable(_CallableObject):
    """a callable hook that is also an (empty) container: falsy, but perfectly callable"""

    def __len__(self):
        return 0


class _LeaseToken:
    """an abort predicate shaped like a lease: truthy while the lease is held, answers 'lost?' when called --
    so the object turns falsy exactly when it starts answering True"""

    def __init__(self, fn):
        self._fn = fn
        self._lost = False

    def __call__(self):
        self._lost = bool(self._fn())
        return self._lost

    def __bool__(self):
        return not self._lost


class Built:
    """Objects for one scenario: target entry point + per-call kwargs."""

    def __init__(self, scn: dict, env: Env) -> None:
        self.scn = scn
        self.env = env
        cfg = scn["cfg"]
        mode = scn["mode"]
        entry = scn["entry"]
        place = dict(scn.get("place") or {})
        hooks = scn.get("hooks") or {}
        is_async = mode == "async"
        self.is_async = is_async
        self.entry = entry
        self.how = scn["how"]
        self.budget = None
        self.breaker = None

        self.place = place

        b = cfg.get("budget")
        if b:
            self.budget = RecBudget(env, max_retries=b["max"], window_s=b["window_us"] / 1e6)
            env.shared_budget = self.budget
        br = cfg.get("breaker")
        if br:
            if br.get("kind") == "spy":
                self.breaker = (FalsySpyBreaker if br.get("falsy") else SpyBreaker)(env, reject=br.get("reject") or ())
            else:
                kw = dict(failure_threshold=br.get("failure_threshold", 5),
                          window_s=br.get("window_us", 60_000_000) / 1e6,
                          recovery_timeout_s=br.get("recovery_us", 30_000_000) / 1e6)
                if br.get("trip_on") is not None:
                    kw["trip_on"] = {ErrorClass[c] for c in br["trip_on"]}
                if br.get("class_thresholds"):
                    kw["class_thresholds"] = {ErrorClass[c]: n for c, n in br["class_thresholds"].items()}
                self.breaker = (GateRecBreaker if br.get("falsy") else RecBreaker)(env, **kw)

        bs_async = is_async and place.get("bs_async", False)     # False | True (coroutine) | "aw" (non-coroutine awaitable)
        sl_kind = place.get("sleeper_kind", "async") if is_async else "sync"   # sync | async | aw

        def trio(key, make):
            """(policy-level, call-level) stubs.  The decorator has no per-call sleep
            plumbing: whatever would win (call-level if given) is installed at
            policy level, keeping its label, so traces stay comparable."""
            p = place.get(key, "none")
            pol, call = _pick(p, make("policy"), make("call"))
            if entry == "decorator":
                return (call if call is not None else pol), None
            return pol, call

        def sized(key, fn):
            return _SizedCallable(fn) if place.get(key) == "sized" else fn

        h_pol, h_call = trio("handler", lambda w: sized("handler_shape", env.make_handler(w)))
        b_pol, b_call = trio("before_sleep", lambda w: sized("bs_shape", env.make_before_sleep(w, bs_async)))
        def mk_sleeper(w):
            sl = env.make_sleeper(w, sl_kind)
            # a sleeper *object* that is also an (empty) container (e.g. a recorder deriving from list): falsy, callable
            return _SizedCallable(sl) if place.get("sleeper_shape") == "sized" else sl

        s_pol, s_call = trio("sleeper", mk_sleeper)
        a_pol_s, a_call_s = _pick(place.get("att_hooks", "none"), env.make_attempt_hook("policy", "start"),
                                  env.make_attempt_hook("call", "start"))
        a_pol_e, a_call_e = _pick(place.get("att_hooks", "none"), env.make_attempt_hook("policy", "end"),
                                  env.make_attempt_hook("call", "end"))

        default = cfg.get("default")
        table = cfg.get("table") or {}
        strategy = env.make_strategy("default", default) if default else None
        strategies = {ErrorClass[c]: env.make_strategy(c, st) for c, st in table.items()}
        if strategy is None and not strategies and not cfg.get("empty_table"):
            strategies = {}
        rkw = dict(
            classifier=env.classifier,
            result_classifier=env.result_classifier if cfg.get("result_classifier") else None,
            strategy=strategy,
            strategies=strategies if (strategies or strategy is None) else None,
            sleep=h_pol, before_sleep=b_pol, sleeper=s_pol,
            budget=self.budget,
            deadline_s=cfg["deadline_us"] / 1e6,
            max_attempts=cfg["max_attempts"],
            max_unknown_attempts=cfg.get("max_unknown"),
            per_class_max_attempts={ErrorClass[c]: n for c, n in (cfg.get("per_class") or {}).items()} or None,
        )
        if cfg.get("attempt_timeout_us"):
            rkw["attempt_timeout_s"] = cfg["attempt_timeout_us"] / 1e6
        self.rkw = rkw
        R = AsyncRetry if is_async else Retry
        P = AsyncPolicy if is_async else Policy
        RP = AsyncRetryPolicy if is_async else RetryPolicy

        shape = hooks.get("shape", "method")

        def shaped(fn):
            """the same hook as a bound method, a functools.partial or a callable object"""
            if shape == "partial":
                return functools.partial(fn)
            if shape == "object":
                return _CallableObject(fn)
            return fn

        self.call_kw = dict(
            on_metric=shaped(env.on_metric) if hooks.get("on_metric") else None,
            on_log=shaped(env.on_log) if hooks.get("on_log") else None,
            operation=hooks.get("operation"),
            abort_if=self._abort_shape(hooks, env) if hooks.get("abort_if") else None,
            sleep=h_call, before_sleep=b_call, sleeper=s_call,
            on_attempt_start=a_call_s, on_attempt_end=a_call_e,
        )
        self.timeline_mode = hooks.get("timeline")
        self._att_pol = dict(on_attempt_start=a_pol_s, on_attempt_end=a_pol_e)
        self._att_call = (a_call_s, a_call_e)
        self._targets = {}
        self._ctx_calls = {}
        self._ctx_objs = {}
        self.reuse_context = bool(scn.get("reuse_context")) and not scn.get("concurrent")
        self.shared_context = bool(scn.get("concurrent")) and bool(scn.get("shared_context"))
        self.target_for(entry)

    @staticmethod
    def _abort_shape(hooks, env):
        s = hooks.get("abort_shape", "method")
        if s == "sized":
            return _SizedCallable(env.abort_if)
        if s == "partial":
            return functools.partial(env.abort_if)
        return env.abort_if

    def target_for(self, entry):
        """(target object, decorated function) for an entry point; all targets of a
        scenario share the same budget / breaker / callbacks."""
        if entry in self._targets:
            return self._targets[entry]
        env, rkw, is_async = self.env, self.rkw, self.is_async
        R = AsyncRetry if is_async else Retry
        P = AsyncPolicy if is_async else Policy
        RP = AsyncRetryPolicy if is_async else RetryPolicy
        base = entry.split(".")[0]
        att_pol = self._att_pol
        target = decorated = None
        if entry == NORETRY:
            target = P(retry=None, circuit_breaker=self.breaker)
        elif entry.endswith("from_config"):
            rc = RetryConfig(
                deadline_s=rkw["deadline_s"], attempt_timeout_s=rkw.get("attempt_timeout_s"),
                max_attempts=rkw["max_attempts"], max_unknown_attempts=rkw["max_unknown_attempts"],
                per_class_max_attempts=rkw["per_class_max_attempts"], default_strategy=rkw["strategy"],
                class_strategies=rkw["strategies"], result_classifier=rkw["result_classifier"],
                sleep=rkw["sleep"], before_sleep=rkw["before_sleep"], sleeper=rkw["sleeper"], budget=rkw["budget"])
            target = (R if base == "Retry" else RP).from_config(rc, classifier=env.classifier)
        elif base in ("Retry", "Policy", "RetryPolicy"):
            # settings attached / re-tuned on the live object after construction (through the entry object itself:
            # the facade forwards to its retry component, a Policy is re-tuned on policy.retry):
            #   collaborators (budget, sleep, before_sleep, sleeper, result_classifier, max_unknown_attempts) are left
            #   out of the constructor and assigned afterwards; deadline / max_attempts are constructed with a decoy
            #   value and then set to the scenario's value
            late = set(self.place.get("late") or [])
            if self.place.get("budget_late"):
                late.add("budget")
            kw = dict(rkw)
            assign = {}
            for name in ("budget", "sleep", "before_sleep", "sleeper", "result_classifier", "max_unknown_attempts"):
                if name in late and rkw.get(name) is not None:
                    kw[name] = None
                    assign[name] = rkw[name]
            if "classifier" in late:
                kw["classifier"] = lambda exc: ErrorClass.PERMANENT       # decoy: replaced before any call
                assign["classifier"] = rkw["classifier"]
            if "deadline" in late:
                kw["deadline_s"] = 7777.0
                assign["deadline"] = timedelta(seconds=rkw["deadline_s"])
            if "max_attempts" in late:
                kw["max_attempts"] = max(rkw["max_attempts"], 0) + 3
                assign["max_attempts"] = rkw["max_attempts"]
            if base == "Retry":
                target = R(**kw, **att_pol)
            elif base == "Policy":
                target = P(retry=R(**kw, **att_pol), circuit_breaker=self.breaker)
            else:
                target = RP(**kw)
            obj = target.retry if base == "Policy" else target
            for name, value in assign.items():
                setattr(obj, name, value)
        elif entry == "decorator":
            dkw = dict(rkw)
            dkw.update(on_metric=self.call_kw["on_metric"], on_log=self.call_kw["on_log"],
                       operation=self.call_kw["operation"], abort_if=self.call_kw["abort_if"],
                       on_attempt_start=self._att_call[0], on_attempt_end=self._att_call[1])
            if dkw["strategy"] is None and dkw["strategies"] is None:
                dkw["strategies"] = {}
            decorated = retry_decorator(**dkw)(env.op_async if is_async else env.op_sync)
        else:
            raise AssertionError(entry)
        if target is not None and hasattr(target, "circuit_breaker"):
            if not hasattr(env, "policy_targets"):
                env.policy_targets = []
            env.policy_targets.append(target)
        self._targets[entry] = (target, decorated)
        return target, decorated


# ---------------------------------------------------------------------------
def _label(env, cs, obj):
    if obj is None:
        return None
    lab = getattr(obj, "label", None)
    if isinstance(lab, str) and cs.objects.get(lab) is obj:
        return lab
    for k, v in cs.objects.items():
        if v is obj:
            return k
    if isinstance(obj, BaseException):
        return "?" + type(obj).__name__
    return "?" + type(obj).__name__


def _tb_ok(exc) -> bool:
    tb = exc.__traceback__
    if tb is None:
        return False
    while tb.tb_next is not None:
        tb = tb.tb_next
    return tb.tb_frame.f_code is RAISE_CODE


def describe_exception(env, cs, exc) -> dict:
    d = {"type": type(exc).__name__, "obj": _label(env, cs, exc)}
    if isinstance(exc, RetryExhaustedError):
        d["ree"] = {
            "stop_reason": getattr(exc.stop_reason, "value", exc.stop_reason),
            "attempts": exc.attempts,
            "last_class": None if exc.last_class is None else exc.last_class.name,
            "last_exception": _label(env, cs, exc.last_exception),
            "last_result": _label(env, cs, exc.last_result),
            "next_sleep_s": fnum(exc.next_sleep_s),
        }
    if d["obj"] is not None and not d["obj"].startswith("?"):
        d["tb_ok"] = _tb_ok(exc)
    d["has_cause"] = exc.__cause__ is not None
    return d


def describe_outcome(env, cs, out) -> dict:
    tl = None
    if out.timeline is not None:
        tl = [{"event": e.event, "attempt": e.attempt, "sleep_s": fnum(e.sleep_s),
               "cls": None if e.error_class is None else e.error_class.name,
               "stop_reason": None if e.stop_reason is None else e.stop_reason.value,
               "cause": e.cause, "elapsed_us": int(round(e.elapsed_s * 1e6))} for e in out.timeline.events]
    return {
        "ok": out.ok, "value": _label(env, cs, out.value),
        "stop_reason": None if out.stop_reason is None else getattr(out.stop_reason, "value", out.stop_reason),
        "attempts": out.attempts,
        "last_class": None if out.last_class is None else out.last_class.name,
        "last_exception": _label(env, cs, out.last_exception),
        "last_exception_type": None if out.last_exception is None else type(out.last_exception).__name__,
        "last_result": _label(env, cs, out.last_result),
        "cause": out.cause, "next_sleep_s": fnum(out.next_sleep_s),
        "elapsed_us": int(round(out.elapsed_s * 1e6)), "timeline": tl,
    }


# ---------------------------------------------------------------------------
def _timeline_arg(built: Built):
    tm = built.timeline_mode
    if tm == "obj":
        return RetryTimeline()
    return True if tm else None


def _invoke_sync(built: Built, env: Env, e: str, how: str):
    kw = dict(built.call_kw)
    target, decorated = built.target_for(e)
    if e == "decorator":
        return decorated()
    op = env.op_for(env.cs().cid, False)
    if e.endswith(".context"):
        if built.reuse_context:
            # one bound context object, entered again for every call (an earlier block may have been left by an exception)
            bound = built._ctx_objs.get(e)
            if bound is None:
                bound = built._ctx_objs[e] = target.context(**kw)
            with bound as call:
                return call(op)
        with target.context(**kw) as call:
            return call(op)
    if how == "execute":
        return target.execute(op, capture_timeline=_timeline_arg(built), **kw)
    return target.call(op, **kw)


async def _invoke_async(built: Built, env: Env, e: str, how: str):
    kw = dict(built.call_kw)
    target, decorated = built.target_for(e)
    if e == "decorator":
        return await decorated()
    op = env.op_for(env.cs().cid, True)
    if e.endswith(".context"):
        if built.shared_context:
            # overlapping calls go through ONE bound context object
            call = built._ctx_calls.get(e)
            if call is None:
                call = built._ctx_calls[e] = await target.context(**kw).__aenter__()
            return await call(op)
        if built.reuse_context:
            bound = built._ctx_objs.get(e)
            if bound is None:
                bound = built._ctx_objs[e] = target.context(**kw)
            async with bound as call:
                return await call(op)
        async with target.context(**kw) as call:
            return await call(op)
    if how == "execute":
        return await target.execute(op, capture_timeline=_timeline_arg(built), **kw)
    return await target.call(op, **kw)


def _end_event(env, cs, built, entry, how, result=None, exc=None):
    if exc is not None:
        env.ev("CALL_END", how="raise", exc=describe_exception(env, cs, exc))
    elif how == "execute" and entry != "decorator" and not entry.endswith(".context"):
        env.ev("CALL_END", how="outcome", out=describe_outcome(env, cs, result))
    else:
        env.ev("CALL_END", how="return", value=_label(env, cs, result))


def run_call_sync(built: Built, env: Env, cid: int, script: dict) -> None:
    cs = CallState(cid, script)
    env.cur = cs
    entry, how = script.get("entry", built.entry), script.get("how", built.how)
    env.res_enabled = bool(env.cfg.get("result_classifier")) and entry != NORETRY
    env.ev("CALL_BEGIN", entry=entry, how=how)
    try:
        res = _invoke_sync(built, env, entry, how)
    except BaseException as exc:  # noqa: BLE001 - the trace records whatever leaves the call
        _end_event(env, cs, built, entry, how, exc=exc)
    else:
        _end_event(env, cs, built, entry, how, result=res)
    finally:
        env.cur = None


async def run_call_async(built: Built, env: Env, cid: int, script: dict) -> None:
    cs = CallState(cid, script)
    task = asyncio.current_task()
    env._cs_by_task[task] = cs
    cs.task = task
    cs.env_id = id(env)
    CURRENT_CALL.set(cs)
    entry, how = script.get("entry", built.entry), script.get("how", built.how)
    cs.res_enabled = bool(env.cfg.get("result_classifier")) and entry != NORETRY
    env.ev("CALL_BEGIN", entry=entry, how=how)
    try:
        res = await _invoke_async(built, env, entry, how)
    except BaseException as exc:  # noqa: BLE001
        _end_event(env, cs, built, entry, how, exc=exc)
        if isinstance(exc, asyncio.CancelledError) and task.cancelling():
            task.uncancel()
    else:
        _end_event(env, cs, built, entry, how, result=res)
    finally:
        env._cs_by_task.pop(task, None)


def _retry_object(built: Built, entry: str):
    target, _ = built.target_for(entry)
    if target is None:
        return None
    base = entry.split(".")[0]
    if base == "Policy":
        return target.retry
    return target          # Retry / AsyncRetry, or RetryPolicy (which forwards attribute writes to its Retry)


def apply_component_op(env: Env, built: Built, op) -> None:
    """Direct component operations / idle time between calls."""
    name = op[0]
    if name == "reconfigure":
        # the caller tightens / loosens caps on a live policy object between calls
        patch, how = op[1], op[2]
        obj = _retry_object(built, built.entry)
        if obj is None:
            return
        if "max_unknown" in patch:
            obj.max_unknown_attempts = patch["max_unknown"]
        if "per_class" in patch:
            new = {ErrorClass[c]: n for c, n in patch["per_class"].items()}
            if how == "in_place":
                cur = obj.per_class_max_attempts
                cur.clear()
                cur.update(new)
            else:
                obj.per_class_max_attempts = new
        env.ev("RECONFIGURE", patch=patch, how=how)
        return
    if name == "adv":
        env.clock.advance(op[1])
        env.ev("ADVANCE", us=op[1])
    elif name == "allow":
        built.breaker.allow()
    elif name == "success":
        built.breaker.record_success()
    elif name == "fail":
        built.breaker.record_failure(ErrorClass[op[1]])
    elif name == "cancel":
        built.breaker.record_cancel()
    elif name == "consume":
        built.budget.consume(op[1] if len(op) > 1 else 1)
    else:
        raise AssertionError(op)


def run_retry_scenario(scn: dict, chooser=None):
    """Execute one scenario; returns (env, info).  Pure function of (scn, code)."""
    ck = scn.get("clock") or {}
    clock = SimClock(ck.get("base_us", 0), ck.get("skew_us", 0), ck.get("jumps"))
    env = Env(clock, scn["mode"], scn["cfg"])
    seams.bind(clock, env)
    info = {}
    try:
        built = Built(scn, env)
        for op in scn.get("pre") or []:
            apply_component_op(env, built, op)
        if scn["mode"] == "sync":
            for cid, script in enumerate(scn["calls"], scn.get("cid_base", 0)):
                for op in script.get("before") or []:
                    apply_component_op(env, built, op)
                if script.get("on_thread"):
                    # the same policy object is used from another OS thread (one call at a time: no interleaving)
                    import threading as _threading
                    box = []

                    def _run(cid=cid, script=script):
                        try:
                            run_call_sync(built, env, cid, script)
                        except BaseException as exc:  # noqa: BLE001 - re-raised on the driving thread
                            box.append(exc)
                    t = _threading.Thread(target=_run, name=f"call{cid}")
                    t.start()
                    t.join()
                    if box:
                        raise box[0]
                else:
                    run_call_sync(built, env, cid, script)
        else:
            conc = scn.get("concurrent", False)

            async def main(loop):
                env.loop = loop
                loop.after_step = env.after_step
                if not conc:
                    for cid, script in enumerate(scn["calls"], scn.get("cid_base", 0)):
                        for op in script.get("before") or []:
                            apply_component_op(env, built, op)
                        await run_call_async(built, env, cid, script)
                    return
                tasks = []
                for cid, script in enumerate(scn["calls"]):
                    async def one(cid=cid, script=script):
                        await env_start_delay(env, script.get("start_us", 0))
                        await run_call_async(built, env, cid, script)
                    tasks.append(loop.create_task(one(), name=f"call{cid}"))
                for t in tasks:
                    await t

            try:
                _, lp = simloop.run(clock, main, chooser=chooser)
                info.update(steps=lp.steps, multi_ready=lp.multi_ready, choices=lp.choices, jumps=lp.jumps)
            except simloop.SimDeadlock as exc:
                # nothing is runnable and no timer is pending, or the step cap was hit: the call never returns
                env.cur = None
                env.ev("HANG", why=str(exc))
                info.update(steps=0, multi_ready=0, choices=[], jumps=0, hang=True)
        for op in scn.get("post") or []:
            apply_component_op(env, built, op)
        info["built"] = built
    finally:
        seams.bind(clock, None)
    info["sim_us"] = clock.mono_us - clock.base_us
    info["wall_jumps"] = clock.n_wall_jumps
    info["wall_reads"] = clock.n_wall_reads
    return env, info


async def env_start_delay(env, us):
    if us:
        await asyncio.sleep(us / 1e6)
