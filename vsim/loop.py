"""Virtual-time asyncio event loop with a simulator-chosen ready order.

* `time()` is the SimClock; when nothing is ready the clock jumps to the next
  timer, so minute-long timeouts cost microseconds.
* each `_run_once` runs exactly ONE ready handle, chosen by `chooser(n)`
  (seeded PRNG, or a recorded schedule in replay).
* nothing ready and no timer = deadlock (reported, never waited for).
No selector, no threads, no real clock.
"""
from __future__ import annotations

import asyncio
import heapq
from asyncio import events


class SimDeadlock(Exception):
    pass


def _py_task_factory(loop, coro, **kw):
    """Pure-Python tasks: their step/wakeup callbacks are bound methods, so the
    loop can attribute every resumption to a task (suspension-point accounting)."""
    return asyncio.tasks._PyTask(coro, loop=loop, **kw)


class SimLoop(asyncio.BaseEventLoop):
    def __init__(self, clock, chooser=None, step_cap: int = 200_000) -> None:
        super().__init__()
        self._sim_clock = clock
        self._chooser = chooser
        self._clock_resolution = 1e-9
        self.steps = 0
        self.step_cap = step_cap
        self.after_step = None             # callback(task) after each task step (suspension accounting)
        self.set_task_factory(_py_task_factory)
        self.choices: list[int] = []       # recorded schedule (index among ready)
        self.multi_ready = 0               # probe: times >1 handle was ready
        self.jumps = 0
        self.lag_us = 0                    # a loop clock that does not see time spent blocking the loop (virtual-time loops)

    # -- clock ----------------------------------------------------------
    def time(self) -> float:
        return (self._sim_clock.mono_us - self.lag_us) / 1e6

    @staticmethod
    def _when_us(when: float) -> int:
        return int(round(when * 1e6))

    # -- core -----------------------------------------------------------
    def _run_once(self) -> None:
        self.steps += 1
        if self.steps > self.step_cap:
            raise SimDeadlock("step cap exceeded")
        sched = self._scheduled
        while sched and sched[0]._cancelled:
            h = heapq.heappop(sched)
            h._scheduled = False
        if not self._ready:
            if not sched:
                raise SimDeadlock("no ready handle and no timer")
            due = self._when_us(sched[0]._when)
            if due > self._sim_clock.mono_us - self.lag_us:
                self._sim_clock.mono_us = due + self.lag_us
                self.jumps += 1
        now = self._sim_clock.mono_us - self.lag_us
        while sched and (sched[0]._cancelled or self._when_us(sched[0]._when) <= now):
            h = heapq.heappop(sched)
            h._scheduled = False
            if not h._cancelled:
                self._ready.append(h)
        ready = self._ready
        n = len(ready)
        if n == 0:
            return
        if n > 1:
            self.multi_ready += 1
            idx = self._chooser(n) if self._chooser is not None else 0
            self.choices.append(idx)
            if idx:
                ready.rotate(-idx)
        handle = ready.popleft()
        if n > 1 and idx:
            ready.rotate(idx)
        if handle._cancelled:
            return
        try:
            handle._run()
        except (KeyboardInterrupt, SystemExit) as exc:
            # asyncio stores the interruption on the task and lets it escape the loop as well; if the step belonged to
            # the main task that is the end of the run, otherwise the simulation carries on so that whoever awaits
            # the helper task sees the interruption there (and a check can say whether it reached the caller)
            owner = getattr(handle._callback, "__self__", None)
            if not isinstance(owner, asyncio.tasks._PyTask) or owner is getattr(self, "main_task", None):
                raise
            self.loop_escapes = getattr(self, "loop_escapes", 0) + 1
            del exc
        if self.after_step is not None:
            owner = getattr(handle._callback, "__self__", None)
            if isinstance(owner, asyncio.tasks._PyTask):
                self.after_step(owner)
        handle = None

    def _timer_handle_cancelled(self, handle) -> None:
        pass

    # -- BaseEventLoop plumbing we do not need ---------------------------
    def _process_events(self, event_list) -> None:  # pragma: no cover
        pass

    def _write_to_self(self) -> None:
        pass

    def call_soon_threadsafe(self, *a, **k):  # pragma: no cover
        raise RuntimeError("SimLoop is single-threaded")

    def run_in_executor(self, executor, func, *args):
        """Simulated executor: the function runs to completion at once (virtual time does not move unless it moves
        it), and its result is delivered through a future on the next loop step -- as a real pool would, including
        the case where the exception cannot be set on a future (StopIteration): that future never resolves."""
        fut = self.create_future()

        def deliver():
            try:
                res = func(*args)
            except BaseException as exc:  # noqa: BLE001 - handed to the awaiting side
                if isinstance(exc, (KeyboardInterrupt, SystemExit)):
                    raise
                try:
                    fut.set_exception(exc)
                except TypeError:
                    pass              # asyncio refuses StopIteration: the awaiting side hangs, as with a real pool
                return
            if not fut.done():
                fut.set_result(res)
        self.call_soon(deliver)
        return fut


def run(clock, main_factory, chooser=None, step_cap: int = 200_000):
    """Run `main_factory()` (a coroutine) to completion on a fresh SimLoop."""
    loop = SimLoop(clock, chooser, step_cap)
    loop.set_debug(False)
    try:
        events._set_running_loop(None)
        coro = main_factory(loop)
        task = loop.create_task(coro, name="sim-main")
        loop.main_task = task
        try:
            loop.run_until_complete(task)
        except SimDeadlock:
            task.cancel()
            raise
        return task.result(), loop
    finally:
        try:
            # cancel leftovers deterministically
            pending = [t for t in asyncio.all_tasks(loop) if not t.done()]
            for t in pending:
                t.cancel()
            loop._ready.clear()
            loop._scheduled.clear()
        finally:
            loop.close()
