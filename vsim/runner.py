"""Batch runner: seeded fan-out over forked workers, violation grouping,
shrinking, replay files, known findings, evidence."""
from __future__ import annotations

import faulthandler
import hashlib
import json
import multiprocessing
import os
import random
import sys
import time as _t
import traceback
from concurrent.futures import ProcessPoolExecutor, as_completed

from . import seams
from .gen import derive_seed

VERIF = os.path.dirname(os.path.dirname(os.path.abspath(__file__)))
_now = _t.perf_counter  # harness wall time only; never visible to the system under test


def canon(obj) -> str:
    return json.dumps(obj, sort_keys=True, default=repr, separators=(",", ":"))


def digest(obj) -> str:
    return hashlib.sha256(canon(obj).encode()).hexdigest()


def chooser_for(scn: dict):
    """Ready-handle chooser: explicit recorded schedule if present, else seeded."""
    sched = scn.get("schedule")
    if sched is not None:
        it = iter(sched)

        def choose(n):
            try:
                c = next(it)
            except StopIteration:
                return 0
            return c if c < n else 0
        return choose
    r = random.Random((scn.get("seed", 0) * 2654435761 + 97) & (2**64 - 1))
    if scn.get("fifo"):
        return None
    return lambda n: r.randrange(n)


# ---------------------------------------------------------------------------
class Stats:
    def __init__(self):
        self.evaluations = 0
        self.runs = 0
        self.shapes = set()
        self.nontrivial_shapes = set()
        self.faults = {}
        self.probes = {}
        self.sim_us = 0
        self.samples = []
        self.violations = []       # (seed, i, rule, sig, detail, scn)
        self.n_violating = 0
        self.errors = []
        self.trace_digest = hashlib.sha256()
        self.states = set()
        self.per_seed = []         # (i, digest) -- determinism self-test
        self.interleavings = set()

    def merge(self, o: "Stats"):
        self.evaluations += o.evaluations
        self.runs += o.runs
        self.shapes |= o.shapes
        self.nontrivial_shapes |= o.nontrivial_shapes
        self.states |= o.states
        self.interleavings |= o.interleavings
        for k, v in o.faults.items():
            self.faults[k] = self.faults.get(k, 0) + v
        for k, v in o.probes.items():
            self.probes[k] = self.probes.get(k, 0) + v
        self.sim_us += o.sim_us
        if len(self.samples) < 3:
            self.samples.extend(o.samples[: 3 - len(self.samples)])
        self.violations.extend(o.violations)
        self.per_seed.extend(o.per_seed)
        self.n_violating += o.n_violating
        self.errors.extend(o.errors)


def add_result(st: Stats, res: dict, seed: int, i: int, scn: dict, keep_viol: int = 40):
    st.evaluations += 1
    st.runs += res.get("runs", 1)
    sh = res.get("shape")
    if sh is not None:
        h = int.from_bytes(hashlib.blake2b(canon(sh).encode(), digest_size=8).digest(), "big")
        st.shapes.add(h)
        if res.get("nontrivial", True):
            st.nontrivial_shapes.add(h)
    for s in res.get("states", ()):
        st.states.add(s)
    if res.get("interleaving") is not None:
        st.interleavings.add(int.from_bytes(hashlib.blake2b(canon(res["interleaving"]).encode(), digest_size=8).digest(), "big"))
    for k, v in (res.get("faults") or {}).items():
        st.faults[k] = st.faults.get(k, 0) + v
    for k, v in (res.get("probes") or {}).items():
        st.probes[k] = st.probes.get(k, 0) + v
    st.sim_us += res.get("sim_us", 0)
    if len(st.samples) < 3 and res.get("nontrivial", True) and res.get("sample") is not None:
        st.samples.append(res["sample"])
    viol = res.get("violations") or []
    if viol:
        st.n_violating += 1
        seen = set()
        for v in viol:
            key = (v["rule"], v["sig"])
            if key in seen:
                continue
            seen.add(key)
            if sum(1 for x in st.violations if (x[2], x[3]) == key) < 3 and len(st.violations) < keep_viol:
                st.violations.append((seed, i, v["rule"], v["sig"], v["detail"], scn))
    if res.get("digest") is not None:
        st.trace_digest.update(res["digest"].encode())
        st.per_seed.append((i, res["digest"][:16] + ":" + ",".join(sorted(v["rule"] for v in viol))))


def _worker(prop_name: str, master: int, start: int, count: int, tier: str, deadline: float):
    faulthandler.dump_traceback_later(max(60, int(deadline - _now()) + 240), exit=True)   # one runaway scenario on a loaded machine must not turn a run into a harness error too early
    try:
        from . import props

        prop = props.load(prop_name)
        seams.install()
        st = Stats()
        for i in range(start, start + count):
            if _now() > deadline:
                break
            seed = derive_seed(master, prop_name, i)
            try:
                scn = prop.gen(seed, tier)
                res = prop.execute(scn)
            except seams.HarnessError:
                raise
            except Exception as exc:  # harness bug: surface, never a pass
                st.errors.append(f"seed={seed} i={i}: {type(exc).__name__}: {exc}\n{traceback.format_exc(limit=8)}")
                if len(st.errors) > 5:
                    break
                continue
            add_result(st, res, seed, i, scn)
        st.trace_digest = st.trace_digest.hexdigest()
        return start, st
    finally:
        faulthandler.cancel_dump_traceback_later()


def run_parallel(prop_name: str, master: int, total: int, tier: str, jobs: int, budget_s: float, chunk: int = 0):
    """Returns merged Stats; chunks are merged in seed order so the output is
    independent of the worker count."""
    t0 = _now()
    deadline = t0 + budget_s
    chunk = chunk or max(1, min(500, total // 64 or 1))   # independent of the worker count
    starts = list(range(0, total, chunk))
    results = {}
    if jobs <= 1:
        for s in starts:
            if _now() > deadline:
                break
            results[s] = _worker(prop_name, master, s, min(chunk, total - s), tier, deadline)[1]
    else:
        ctx = multiprocessing.get_context("fork")
        with ProcessPoolExecutor(max_workers=jobs, mp_context=ctx) as ex:
            futs = {ex.submit(_worker, prop_name, master, s, min(chunk, total - s), tier, deadline): s for s in starts}
            for f in as_completed(futs, timeout=budget_s + 420):
                s, st = f.result()
                results[s] = st
    merged = Stats()
    digests = []
    for s in sorted(results):
        merged.merge(results[s])
        digests.append(results[s].trace_digest if isinstance(results[s].trace_digest, str) else "")
    merged.trace_digest = hashlib.sha256("".join(digests).encode()).hexdigest()
    merged.wall_s = _now() - t0
    return merged


# ---------------------------------------------------------------------------
def load_known(path=None):
    path = path or os.environ.get("VERIF_KNOWN_FINDINGS") or os.path.join(VERIF, "known_findings.json")
    if not os.path.exists(path):
        return []
    with open(path) as f:
        return json.load(f).get("findings", [])


def match_known(known, prop_id, rule, sig):
    for k in known:
        if k.get("status") != "known":
            continue  # `fixed` entries suppress nothing
        if k["property"] == prop_id and k["rule"] == rule and k["signature"] == sig:
            return k
    return None


def write_replay(prop_id, rule, sig, seed, scn, detail, out_dir=None):
    out_dir = out_dir or os.path.join(VERIF, "replays")
    os.makedirs(out_dir, exist_ok=True)
    name = f"{prop_id}-{rule}-{seed}-{hashlib.sha256(sig.encode()).hexdigest()[:8]}.json"
    path = os.path.join(out_dir, name)
    with open(path, "w") as f:
        json.dump({"property": prop_id, "rule": rule, "signature": sig, "seed": seed,
                   "detail": detail, "scenario": scn}, f, indent=1, sort_keys=True, default=repr)
    return path


def write_evidence(prop, tier, master, st: Stats, level, extra_cov=None, assumptions=None, n_viol=0, known_lines=()):
    cov = {
        "evaluations": st.evaluations,
        "distinct_nontrivial": len(st.nontrivial_shapes),
        "rule": getattr(prop, "RULE", ""),
        "samples": st.samples[:3] or [{"note": "no non-trivial sample captured"}],
        "simulated_runs": st.runs,
        "distinct_shapes_all": len(st.shapes),
        "simulated_seconds": round(st.sim_us / 1e6, 3),
        "fault_kinds_fired": dict(sorted(st.faults.items())),
        "probes": dict(sorted(st.probes.items())),
        "runs_per_hour": int(st.runs / max(st.wall_s, 1e-9) * 3600),
        "seeds_per_hour": int(st.evaluations / max(st.wall_s, 1e-9) * 3600),
        "components": getattr(prop, "COMPONENTS", {}),
        "batch_trace_digest": st.trace_digest,
        "known_findings_reported": list(known_lines),
        "scenarios_with_violation": st.n_violating,
    }
    if st.states:
        cov["states"] = len(st.states)
        cov["states_measure"] = getattr(prop, "STATES_MEASURE", "distinct abstract states / transitions reached (see rule)")
    if st.interleavings:
        cov["distinct_interleavings"] = len(st.interleavings)
        cov["interleavings_measure"] = getattr(prop, "INTERLEAVING_MEASURE", "distinct (program, schedule) pairs")
    if extra_cov:
        cov.update(extra_cov)
    ev = {
        "property_id": prop.ID, "tier": tier, "seed": master, "level": level, "coverage": cov,
        "assumptions": list(assumptions or getattr(prop, "ASSUMPTIONS", [])),
        "wall_s": round(st.wall_s, 3), "violations": n_viol,
    }
    os.makedirs(os.path.join(VERIF, "evidence"), exist_ok=True)
    path = os.path.join(VERIF, "evidence", f"{prop.ID}.json")
    tmp = path + ".tmp"
    with open(tmp, "w") as f:
        json.dump(ev, f, indent=1, sort_keys=True, default=repr)
    os.replace(tmp, path)
    return path
