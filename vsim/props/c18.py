"""C18 -- built-in backoff strategies are total and stay inside their envelopes.

Simulator-owned dimensions: the random draw behind every jitter (forced to 0.0,
to 1-2^-53, or seeded), the clock / success-failure history of adaptive(), and
the attempt numbers a long-running worker reaches (virtual time makes 3000
backoffs cost milliseconds).  Parameter values are swarm configuration.

(a) worker runs : a real Retry / AsyncRetry, max_attempts up to 3000, always
    failing operation, virtual sleeper, strategy = the real decorrelated_jitter /
    equal_jitter / token_backoff / adaptive(...) / retry_after_or(...) under a
    pass-through recorder
(b) direct calls with attempt up to 10^6 and previous delay up to 1e308
(c) adaptive(): interleaved record_success / record_failure / clock advances
    around window_s / calls, on the simulated clock
(d) one adaptive() object used by 2-3 real threads under the seeded baton
    scheduler (pre-emption before every source line of strategies.py and at its
    lock): no call raises, every value stays inside the multiplier envelope

R1 no exception escapes a strategy
R2 decorrelated_jitter: finite, 0 <= x <= max_s
R3 equal_jitter / token_backoff: cap/2 <= x <= cap with cap = min(max_s,
   base_s * g^attempt) computed independently in exact rational arithmetic
R4 adaptive: x = m * fallback with min_multiplier <= m <= max_multiplier
R5 retry_after_or: finite, >= 0, <= remaining_s when given
"""
from __future__ import annotations

import asyncio
import math
import random
from fractions import Fraction

from redress import AsyncRetry, Classification, ErrorClass, Retry
from redress import strategies as S

from .. import loop as simloop
from .. import seams
from ..clock import SimClock, sec_to_us
from ..facts import V
from ..runner import digest

ID = "C18"
LEVEL = "exploration"
RULE = ("seeded scenarios: 45% long-running worker runs through the real retry loop (attempt numbers up to 3000), 35% "
        "direct strategy calls (attempt up to 1e6, prev delay up to 1e308), 20% adaptive() histories on the simulated "
        "clock (of which ~1/5 shared by 2-3 threads under a seeded baton schedule; multipliers up to 1e308/inf/nan); parameters 0 <= base_s <= max_s from 0 to 1e6 incl. 0 and equality; jitter draws forced to 0 / 1-2^-53 / "
        "seeded; distinct by (strategy, parameters, draw mode, attempt-range bucket) hash; non-trivial = at least one "
        "strategy evaluation with attempt > 8 or an extreme draw")
COMPONENTS = {"real": ["redress.strategies.decorrelated_jitter / equal_jitter / token_backoff / adaptive / retry_after_or / _normalize_strategy",
                       "redress.policy Retry / AsyncRetry loop (worker runs)"],
              "stub": ["random (ScriptedRandom: every draw from the scenario)", "clock (SimClock)", "operation / classifier / sleeper (scripted)",
                       "threaded sub-batch: thread scheduler (baton, seeded) and the adaptive object's lock (cooperative SimLock set on the instance); the threads are real OS threads running the real strategy code"]}
ASSUMPTIONS = ["much of this property's quantifier is plain input space (parameters, attempt numbers); the simulator owns the draw, "
               "the clock/history and the attempt numbers reached by the loop", "envelope comparisons allow 1e-9 relative rounding slack",
               "sampling, not proof"]
BUDGETS = {"quick": (4000, 90), "thorough": (100000, 285)}
TOP = 1.0 - 2.0 ** -53
G = {"equal": 2, "token": Fraction(3, 2)}


class Draws:
    """env stand-in for the ScriptedRandom seam"""

    def __init__(self, mode, seed):
        self.mode = mode
        self.r = random.Random(seed)
        self.n = 0
        self.extreme = 0

    def next_draw(self):
        self.n += 1
        m = self.mode
        if m == "mixed":
            m = self.r.choice(["zero", "top", "seeded"])
        if m == "zero":
            self.extreme += 1
            return 0.0
        if m == "top":
            self.extreme += 1
            return TOP
        return self.r.random()

    def default_sleep(self, s):
        raise AssertionError("no default sleeper in C18")


def gen_params(r):
    x = r.random()
    if x < 0.15:
        base = 0.0
    elif x < 0.22:
        base = r.choice([5e-324, 1e-320, 1e-310, 1e-300, 1e-200, 1e-100, 1e-30, 1e-9])   # tiny / subnormal
    elif x < 0.5:
        base = r.choice([0.001, 0.01, 0.1, 0.25, 0.5, 1.0])
    else:
        base = round(r.uniform(0, 100), r.choice([0, 3, 6]))
    y = r.random()
    if y < 0.15:
        mx = base
    elif y < 0.3:
        mx = r.choice([1e6, 1e5, 3600.0])
    else:
        mx = base + r.choice([0.5, 1, 5, 20, 30, 60, 300, r.uniform(0, 1000)])
    return base, float(mx)


def gen(seed, tier="quick"):
    r = random.Random(seed)
    x = r.random()
    scn = {"seed": seed, "draws": r.choice(["zero", "top", "seeded", "mixed"])}
    name = r.choice(["decorrelated", "equal", "token", "equal", "token", "adaptive", "retry_after_or"])
    scn["strategy"] = name
    scn["base_s"], scn["max_s"] = gen_params(r)
    if name == "adaptive" or x >= 0.8:
        scn["strategy"] = "adaptive"
        scn["kind"] = "adaptive_hist"
        w = r.choice([1, 2, 8, 60]) * 1_000_000
        scn["adaptive"] = {"window_us": w, "target_success": r.choice([1.0, 0.9, 0.5, 0.1, 0.01]), "min_m": r.choice([1.0, 1.0, 1.5, 2.0]),
                           "span": r.choice([0.0, 1.0, 4.0, 9.0, 9.0, 9.0, 1e308, "inf", "nan"])}
        ops = []
        n_ops = r.choice([r.randint(1, 60), r.randint(1, 60), r.randint(1, 60), r.randint(1100, 3000)])
        burst = n_ops > 1000     # a traffic burst: thousands of outcomes inside one window
        for _ in range(n_ops):
            z = r.random()
            if z < (0.6 if burst else 0.3):
                ops.append(["fail"])
            elif z < (0.8 if burst else 0.5):
                ops.append(["ok"])
            elif z < (0.85 if burst else 0.7):
                ops.append(["adv", r.choice([0, 1, 1000]) if burst else r.choice([0, 1000, w, w - 1, w + 1, w // 2, w // 3])])
            else:
                ops.append(["call", r.choice([0, 1, 250_000, 1_000_000, 30_000_000, r.randrange(0, 10**7)])])
        scn["ops"] = ops
        scn["inner"] = r.choice(["const", "equal", "token", "decorrelated"])
        if r.random() < 0.4:
            # the same strategy object driven by real policy runs: the loop feeds record_failure / record_success
            scn["kind"] = "adaptive_policy"
            scn["mode"] = r.choice(["sync", "async"])
            scn["max_attempts"] = r.choice([2, 3, 5, 8])
            scn["calls"] = [{"fails": r.randint(0, 8), "gap_us": r.choice([0, 1000, w, w - 1, w + 1, w // 2]), "dur_us": r.choice([0, 1000, w // 4])}
                            for _ in range(r.randint(1, 8))]
            scn["fallback_us"] = r.choice([0, 1, 250_000, 1_000_000])
        elif r.random() < 0.3:
            # one adaptive() object shared by 2-3 worker threads (it carries its own lock): seeded baton schedule,
            # pre-emption before every source line of strategies.py and at every lock operation
            r2 = random.Random(seed ^ 0xC18)
            scn["kind"] = "adaptive_threads"
            scn["ops"] = ops[:r2.randint(0, 6)] if not burst else ops[:r2.randint(0, 40)]
            pool = [["fail"], ["fail"], ["ok"], ["call", 250_000], ["call", 1_000_000], ["call", 0]]
            scn["threads"] = [[list(r2.choice(pool)) for _ in range(r2.choice([1, 2, 3, 4]))] for _ in range(r2.choice([2, 2, 3]))]
            scn["sched"] = r2.choice(["random", "random", "pct", "rtc"])
        return scn
    if name == "retry_after_or":
        scn["jitter_s"] = r.choice([0.0, 0.25, 1.0, 2.0, -1.0])
        scn["hints"] = [r.choice([None, 0, 1, 500_000, 2_000_000, 10**9, "nan", "inf", "-inf", -5_000_000]) for _ in range(r.randint(1, 4))]
        scn["fallback"] = [r.choice([0, 250_000, 10**7, "nan", "inf", -1_000_000]) for _ in range(r.randint(1, 3))]
    if x < 0.45:
        scn["kind"] = "strat_worker"
        scn["mode"] = r.choice(["sync", "async"])
        scn["max_attempts"] = r.choice([10, 40, 40, 200, 1100, 1100, 1800, 1800, 3000])
        scn["deadline_s"] = r.choice([1e12, 1e12, 1e9, 3600.0, 30.0])
    else:
        scn["kind"] = "strat_direct"
        calls = []
        for _ in range(r.randint(1, 12)):
            att = r.choice([1, 2, 3, 8, 20, 64, 100, 1023, 1024, 1025, 1750, 1751, 1752, 5000, 10**6, r.randint(1, 4000)])
            prev = r.choice([None, 0.0, 0.001, 1.0, 30.0, 1e6, 1e100, 1e308, r.uniform(0, 100)])
            rem = r.choice([None, 0.001, 1.0, 60.0, 1e9, 0.0, 0])
            calls.append([att, prev, rem])
        scn["calls"] = calls
    return scn


def build_strategy(scn, clock, records):
    name = scn["strategy"]
    b, m = scn["base_s"], scn["max_s"]
    if name == "decorrelated":
        real = S.decorrelated_jitter(base_s=b, max_s=m)
    elif name == "equal":
        real = S.equal_jitter(base_s=b, max_s=m)
    elif name == "token":
        real = S.token_backoff(base_s=b, max_s=m)
    elif name == "retry_after_or":
        fb = scn["fallback"]
        k = [0]

        def fallback(ctx):
            v = fb[k[0] % len(fb)]
            k[0] += 1
            return float(v) if isinstance(v, str) else v / 1e6
        real = S.retry_after_or(fallback, jitter_s=scn["jitter_s"])
    else:
        raise AssertionError(name)
    norm = S._normalize_strategy(real)

    def recorder(ctx):
        rec = {"attempt": ctx.attempt, "prev": ctx.prev_sleep_s, "remaining": ctx.remaining_s, "ra": ctx.classification.retry_after_s}
        try:
            v = norm(ctx)
        except Exception as exc:
            rec["raised"] = type(exc).__name__ + ": " + str(exc)[:80]
            records.append(rec)
            raise
        rec["value"] = v
        records.append(rec)
        return v
    return recorder


def exact_cap(scn, attempt):
    b, m = Fraction(scn["base_s"]), Fraction(scn["max_s"])
    g = G[scn["strategy"]]
    if b == 0:
        return Fraction(0)
    if attempt > 6000:
        return m
    return min(m, b * Fraction(g) ** attempt)


def judge(scn, records, out):
    name = scn["strategy"]
    for rec in records:
        cell = f"{name}"
        if "raised" in rec:
            out.append(V("R1", f"{name} raised {rec['raised'].split(':')[0]}", {"strategy": name, "params": [scn['base_s'], scn['max_s']], "call": rec}))
            continue
        x = rec["value"]
        if not isinstance(x, (int, float)) or x != x or x in (float("inf"), float("-inf")):
            out.append(V("R2" if name == "decorrelated" else "R3" if name in G else "R5", f"{name} returned a non-finite value", {"strategy": name, "call": rec}))
            continue
        if name == "decorrelated":
            if x < 0 or x > scn["max_s"]:
                out.append(V("R2", "decorrelated_jitter outside [0, max_s]", {"params": [scn['base_s'], scn['max_s']], "call": rec}))
        elif name in G:
            cap = exact_cap(scn, rec["attempt"])
            lo, hi = float(cap / 2), float(cap)
            if x < lo * (1 - 1e-9) - 1e-300 or x > hi * (1 + 1e-9) + 1e-300:
                out.append(V("R3", f"{name}: value outside [cap/2, cap]", {"params": [scn['base_s'], scn['max_s']], "cap": hi, "call": rec}))
        elif name == "retry_after_or":
            if x < 0:
                out.append(V("R5", "retry_after_or returned a negative delay", {"call": rec}))
            if rec["remaining"] is not None and x > rec["remaining"]:
                out.append(V("R5", "retry_after_or exceeded the remaining deadline", {"call": rec}))


def run_worker(scn):
    clock = SimClock(0)
    draws = Draws(scn["draws"], scn["seed"])
    seams.bind(clock, draws)
    records = []
    strat = build_strategy(scn, clock, records)
    hints = scn.get("hints") or [None]
    n = [0]

    def classifier(exc):
        h = hints[n[0] % len(hints)]
        n[0] += 1
        if h is None:
            return ErrorClass.RATE_LIMIT
        return Classification(klass=ErrorClass.RATE_LIMIT, retry_after_s=float(h) if isinstance(h, str) else h / 1e6)

    class Boom(Exception):
        pass

    escaped = None
    kw = dict(classifier=classifier, strategy=strat, deadline_s=scn["deadline_s"], max_attempts=scn["max_attempts"], max_unknown_attempts=None)
    if scn["mode"] == "sync":
        def op():
            clock.advance(1000)
            raise Boom()
        pol = Retry(sleeper=lambda s: clock.advance(sec_to_us(s)), **kw)
        try:
            pol.call(op)
        except Boom:
            pass
        except Exception as exc:
            escaped = exc
    else:
        async def aop():
            await asyncio.sleep(0.001)
            raise Boom()

        async def asl(s):
            await asyncio.sleep(s)
        pol = AsyncRetry(sleeper=asl, **kw)

        async def main(loop):
            try:
                await pol.call(aop)
            except Boom:
                return None
            except Exception as exc:
                return exc
        escaped, _ = simloop.run(clock, main, step_cap=2_000_000)
    seams.bind(clock, None)
    return records, escaped, clock, draws


def run_direct(scn):
    clock = SimClock(0)
    draws = Draws(scn["draws"], scn["seed"])
    seams.bind(clock, draws)
    records = []
    strat = build_strategy(scn, clock, records)
    hints = scn.get("hints") or [None]
    for i, (att, prev, rem) in enumerate(scn["calls"]):
        h = hints[i % len(hints)]
        ra = None if h is None else (float(h) if isinstance(h, str) else h / 1e6)
        ctx = S.BackoffContext(attempt=att, classification=Classification(klass=ErrorClass.RATE_LIMIT, retry_after_s=ra),
                               prev_sleep_s=prev, remaining_s=rem, cause="exception")
        try:
            strat(ctx)
        except Exception:
            pass
    seams.bind(clock, None)
    return records, None, clock, draws


def run_adaptive(scn, out):
    clock = SimClock(0)
    draws = Draws(scn["draws"], scn["seed"])
    seams.bind(clock, draws)
    a = scn["adaptive"]
    inner_vals = []
    if scn["inner"] == "const":
        cur = [0.0]

        def fallback(ctx):
            inner_vals.append(cur[0])
            return cur[0]
    else:
        realf = S._normalize_strategy({"equal": S.equal_jitter, "token": S.token_backoff, "decorrelated": S.decorrelated_jitter}[scn["inner"]](
            base_s=scn["base_s"], max_s=scn["max_s"]))
        cur = [0.0]

        def fallback(ctx):
            v = realf(ctx)
            inner_vals.append(v)
            return v
    mn, mx = a["min_m"], a["min_m"] + float(a["span"])
    try:
        ad = S.adaptive(fallback, window_s=a["window_us"] / 1e6, target_success=a["target_success"], min_multiplier=mn, max_multiplier=mx,
                        clock=clock.monotonic)
    except ValueError:
        seams.bind(clock, None)
        return [], clock, draws      # the constructor's own validation rejected the parameterisation: not a valid one
    records = []
    att = 0
    for op in scn["ops"]:
        if op[0] == "adv":
            clock.advance(op[1])
        elif op[0] == "fail":
            ad.record_failure(ErrorClass.TRANSIENT)
        elif op[0] == "ok":
            ad.record_success()
        else:
            att += 1
            cur[0] = op[1] / 1e6
            rem = [None, None, 0.001, 0.25, 1.0, 60.0][(att + len(scn["ops"])) % 6]
            ctx = S.BackoffContext(attempt=att, classification=Classification(klass=ErrorClass.TRANSIENT), prev_sleep_s=None, remaining_s=rem, cause="exception")
            n0 = len(inner_vals)
            try:
                x = ad(ctx)
            except Exception as exc:
                out.append(V("R1", f"adaptive raised {type(exc).__name__}", {"adaptive": a, "op": op}))
                continue
            fb = inner_vals[n0] if len(inner_vals) > n0 else None
            records.append({"attempt": att, "fallback": fb, "value": x})
            if fb is None:
                out.append(V("R4", "adaptive did not consult its fallback", {"adaptive": a}))
            elif not (isinstance(x, float) or isinstance(x, int)) or x != x:
                out.append(V("R4", "adaptive returned NaN", {"adaptive": a, "fallback": fb}))
            elif fb >= 0 and math.isfinite(fb):
                lo, hi = mn * fb, mx * fb
                if x < lo * (1 - 1e-9) or x > hi * (1 + 1e-9) or x < fb * (1 - 1e-12):
                    out.append(V("R4", "adaptive scaled its fallback by a factor outside [min_multiplier, max_multiplier]",
                                 {"adaptive": a, "fallback": fb, "value": x, "min": mn, "max": mx}))
    seams.bind(clock, None)
    return records, clock, draws


def run_adaptive_threads(scn, out):
    """(d) a single adaptive() strategy object used from several threads at once."""
    from ..threads import FAKE, Deadlock, Scheduler, StepCap
    from .c17 import make_chooser

    seams.install_threading(FAKE)
    FAKE.locks = []
    FAKE.sched = None
    clock = SimClock(0)
    draws = Draws(scn["draws"], scn["seed"])
    seams.bind(clock, draws)
    a = scn["adaptive"]
    mn, mx = a["min_m"], a["min_m"] + float(a["span"])
    tl = {}

    def fallback(ctx):
        return tl[ctx.attempt]

    try:
        ad = S.adaptive(fallback, window_s=a["window_us"] / 1e6, target_success=a["target_success"], min_multiplier=mn, max_multiplier=mx,
                        clock=clock.monotonic)
    except ValueError:
        seams.bind(clock, None)
        return [], clock, draws      # the constructor's own validation rejected the parameterisation: not a valid one
    # the dataclass captured the real threading.Lock as its default factory at import time: hand the instance a
    # cooperative lock instead (the lock object is the seam; everything that uses it is the real code)
    if hasattr(ad, "_lock"):
        ad._lock = FAKE.Lock()
    for op in scn["ops"]:
        if op[0] == "adv":
            clock.advance(op[1])
        elif op[0] == "fail":
            ad.record_failure(ErrorClass.TRANSIENT)
        elif op[0] == "ok":
            ad.record_success()
    records = []

    def worker(tid, ops):
        def run():
            for i, op in enumerate(ops):
                try:
                    if op[0] == "fail":
                        ad.record_failure(ErrorClass.TRANSIENT)
                    elif op[0] == "ok":
                        ad.record_success()
                    else:
                        att = 1 + tid * 10 + i
                        fb = op[1] / 1e6
                        tl[att] = fb
                        ctx = S.BackoffContext(attempt=att, classification=Classification(klass=ErrorClass.TRANSIENT), prev_sleep_s=None,
                                               remaining_s=None, cause="exception")
                        x = ad(ctx)
                        records.append({"attempt": att, "fallback": fb, "value": x})
                        if not isinstance(x, (int, float)) or x != x or x < mn * fb * (1 - 1e-9) or x > mx * fb * (1 + 1e-9):
                            out.append(V("R4", "adaptive scaled its fallback by a factor outside [min_multiplier, max_multiplier]",
                                         {"adaptive": a, "fallback": fb, "value": x, "min": mn, "max": mx, "threads": True}))
                except Exception as exc:  # noqa: BLE001 - "none of them raises"
                    out.append(V("R1", f"adaptive raised {type(exc).__name__}", {"adaptive": a, "op": op, "threads": scn["threads"]}))
        return run

    sched = Scheduler(make_chooser({"seed": scn["seed"], "threads": scn["threads"], "strategy": scn.get("sched", "random"), "schedule": scn.get("schedule")}),
                      files=("redress/strategies.py",), step_cap=20000)
    FAKE.sched = sched
    try:
        sched.run([worker(t, ops) for t, ops in enumerate(scn["threads"])])
    except Deadlock:
        out.append(V("R1", "adaptive deadlocked under a legal interleaving", {"adaptive": a, "threads": scn["threads"]}))
    except StepCap:
        out.append(V("R1", "adaptive did not finish under a legal interleaving (step cap)", {"adaptive": a, "threads": scn["threads"]}))
    finally:
        FAKE.sched = None
        for lk in FAKE.locks:
            lk.owner = None
    seams.bind(clock, None)
    draws.preempt = sched.switches
    draws.schedule = list(sched.schedule)
    return records, clock, draws


def run_adaptive_policy(scn, out):
    clock = SimClock(0)
    draws = Draws(scn["draws"], scn["seed"])
    seams.bind(clock, draws)
    a = scn["adaptive"]
    mn, mx = a["min_m"], a["min_m"] + float(a["span"])
    fbv = scn["fallback_us"] / 1e6
    fb_calls = []

    def fallback(ctx):
        fb_calls.append(fbv)
        return fbv
    try:
        ad = S.adaptive(fallback, window_s=a["window_us"] / 1e6, target_success=a["target_success"], min_multiplier=mn, max_multiplier=mx,
                        clock=clock.monotonic)
    except ValueError:
        seams.bind(clock, None)
        return [], clock, draws      # the constructor's own validation rejected the parameterisation: not a valid one
    records = []

    def recorder(ctx):
        n0 = len(fb_calls)
        try:
            x = ad(ctx)
        except Exception as exc:
            out.append(V("R1", f"adaptive raised {type(exc).__name__}", {"adaptive": a}))
            raise
        records.append({"attempt": ctx.attempt, "fallback": fbv if len(fb_calls) > n0 else None, "value": x})
        if len(fb_calls) == n0:
            out.append(V("R4", "adaptive did not consult its fallback", {"adaptive": a}))
        elif x != x or x < mn * fbv * (1 - 1e-9) or x > mx * fbv * (1 + 1e-9):
            out.append(V("R4", "adaptive scaled its fallback by a factor outside [min_multiplier, max_multiplier]",
                         {"adaptive": a, "fallback": fbv, "value": x, "min": mn, "max": mx}))
        return x
    # the loop discovers record_failure / record_success on the strategy object itself
    recorder.record_failure = ad.record_failure
    recorder.record_success = ad.record_success

    class Boom(Exception):
        pass

    kw = dict(classifier=lambda e: ErrorClass.TRANSIENT, strategy=recorder, deadline_s=1e9, max_attempts=scn["max_attempts"], max_unknown_attempts=None)
    escaped = []
    if scn["mode"] == "sync":
        pol = Retry(sleeper=lambda s: clock.advance(sec_to_us(s)), **kw)
        for c in scn["calls"]:
            clock.advance(c["gap_us"])
            left = [c["fails"]]

            def op():
                clock.advance(c["dur_us"])
                if left[0] > 0:
                    left[0] -= 1
                    raise Boom()
                return "ok"
            try:
                pol.call(op)
            except Boom:
                pass
            except Exception as exc:
                escaped.append(exc)
    else:
        async def asl(s):
            await asyncio.sleep(s if (isinstance(s, (int, float)) and s == s and 0 <= s < 1e12) else 0)
        pol = AsyncRetry(sleeper=asl, **kw)

        async def main(loop):
            for c in scn["calls"]:
                await asyncio.sleep(c["gap_us"] / 1e6)
                left = [c["fails"]]

                async def aop():
                    await asyncio.sleep(c["dur_us"] / 1e6)
                    if left[0] > 0:
                        left[0] -= 1
                        raise Boom()
                    return "ok"
                try:
                    await pol.call(aop)
                except Boom:
                    pass
                except Exception as exc:
                    escaped.append(exc)
        simloop.run(clock, main, step_cap=2_000_000)
    seams.bind(clock, None)
    for exc in escaped[:1]:
        if not any(v["rule"] == "R1" for v in out):
            out.append(V("R1", f"policy run with adaptive() died with {type(exc).__name__}", {"error": repr(exc)[:200]}))
    return records, clock, draws


def execute(scn):
    viol = []
    if scn["kind"] == "adaptive_policy":
        records, clock, draws = run_adaptive_policy(scn, viol)
        escaped = None
    elif scn["kind"] == "adaptive_hist":
        records, clock, draws = run_adaptive(scn, viol)
        escaped = None
    elif scn["kind"] == "adaptive_threads":
        records, clock, draws = run_adaptive_threads(scn, viol)
        escaped = None
    elif scn["kind"] == "strat_worker":
        records, escaped, clock, draws = run_worker(scn)
        judge(scn, records, viol)
        if escaped is not None and not any(v["rule"] == "R1" for v in viol):
            viol.append(V("R1", f"worker run died with {type(escaped).__name__}", {"strategy": scn["strategy"], "error": repr(escaped)[:200]}))
    else:
        records, escaped, clock, draws = run_direct(scn)
        judge(scn, records, viol)
    seen = {}
    for v in viol:
        seen.setdefault((v["rule"], v["sig"]), v)
    max_att = max([r.get("attempt", 0) for r in records], default=0)
    bucket = 0 if max_att <= 8 else 1 if max_att < 1024 else 2 if max_att < 1751 else 3
    nt = max_att > 8 or draws.extreme > 0
    res = {"violations": list(seen.values()),
           "shape": (scn["kind"], scn["strategy"], scn["base_s"], scn["max_s"], scn["draws"], bucket, scn.get("max_attempts"), digest(scn.get("calls") or scn.get("ops") or 0)),
           "nontrivial": nt or getattr(draws, "preempt", 0) > 0,
           "faults": {"thread_preempt": getattr(draws, "preempt", 0), "rand_extreme": draws.extreme, "clock_advance": sum(1 for o in scn.get("ops", []) if o[0] == "adv" and o[1])},
           "probes": {"strategy_evaluations": len(records), "attempt_ge_1024": sum(1 for r in records if r.get("attempt", 0) >= 1024),
                      "attempt_ge_1751": sum(1 for r in records if r.get("attempt", 0) >= 1751)},
           "sim_us": clock.mono_us, "digest": digest(records[-50:]) + str(len(records)), "runs": 1}
    if getattr(draws, "schedule", None) is not None:
        res["schedule"] = draws.schedule
        res["digest"] += digest(draws.schedule)
    if nt:
        res["sample"] = {"scenario": scn, "evaluations": len(records), "last_records": records[-5:]}
    return res
