"""Shared execute/shape helpers for properties that run `retry` scenarios."""
from __future__ import annotations

from .. import gen as G
from ..drive import run_retry_scenario
from ..facts import delivered_stop_reason, split_calls
from ..runner import chooser_for, digest

REAL_COMPONENTS = {
    "real": ["redress.policy.* (Retry/AsyncRetry/Policy/AsyncPolicy/RetryPolicy/decorator/context, runners, state, "
             "retry_helpers, logic, timeline, execution)", "redress.budget.Budget", "redress.circuit.CircuitBreaker",
             "redress.strategies._normalize_strategy", "asyncio tasks/futures/timeouts (on SimLoop)"],
    "stub": ["operation, classifier, result classifier, strategies, sleep handler, before_sleep, sleeper, abort_if, "
             "on_metric, on_log, attempt hooks (scripted Environment)", "time.monotonic/time.sleep/asyncio.sleep "
             "(SimClock/TimeShim)", "event loop (SimLoop: virtual time, seeded ready order)"],
}


def shape_of(scn, trace, env):
    calls = split_calls(trace)
    per = []
    for cid in sorted(calls):
        cf = calls[cid]
        atts = tuple((a.kind, a.fclass) for a in cf.attempts)
        end = cf.end
        if end is None:
            fin = "none"
        elif end["how"] == "raise":
            fin = "raise:" + end["exc"]["type"] + ":" + str((end["exc"].get("ree") or {}).get("stop_reason"))
        elif end["how"] == "outcome":
            fin = "out:" + str(end["out"]["ok"]) + ":" + str(end["out"]["stop_reason"])
        else:
            fin = "ret"
        dec = tuple(e["decision"] for e in cf.all("HANDLER"))
        per.append((atts, fin, dec, len(cf.all("SLEEP_BEGIN")), sum(1 for e in cf.all("BUDGET") if not e["granted"])))
    return (scn["mode"], scn["entry"], scn["how"], tuple(per), tuple(sorted(env.fault_counts)))


def nontrivial(trace, env):
    if env.fault_counts:
        return True
    for e in trace:
        if e["ev"] == "OP_END" and e["kind"] != "ok":
            return True
    return False


def sample_of(scn, trace, limit=60):
    return {"scenario": scn, "trace_head": [{k: v for k, v in e.items()} for e in trace[:limit]], "trace_len": len(trace)}


def execute_retry(scn, oracle, want_sample=True, probes_fn=None):
    env, info = run_retry_scenario(scn, chooser=chooser_for(scn) if scn["mode"] == "async" else None)
    trace = env.trace
    viol = oracle(scn, trace)
    faults = dict(env.fault_counts)
    if info.get("wall_jumps"):
        faults["wall_jump"] = info["wall_jumps"]
    for e in trace:
        if e["ev"] == "OP_END":
            if e["kind"] == "exc":
                faults["op_exc"] = faults.get("op_exc", 0) + 1
            elif e["kind"] == "res":
                faults["op_result"] = faults.get("op_result", 0) + 1
        elif e["ev"] == "BUDGET" and not e["granted"]:
            faults["budget_pressure"] = faults.get("budget_pressure", 0) + 1
        elif e["ev"] == "STRATEGY" and (isinstance(e["raw"], str) or (isinstance(e["raw"], (int, float)) and e["raw"] < 0)):
            faults["bad_strategy_value"] = faults.get("bad_strategy_value", 0) + 1
    probes = {}
    if info.get("multi_ready"):
        probes["two_tasks_ready_at_once"] = info["multi_ready"]
    if probes_fn is not None:
        probes_fn(scn, trace, probes)
    nt = nontrivial(trace, env)
    res = {
        "violations": viol,
        "shape": shape_of(scn, trace, env),
        "nontrivial": nt,
        "faults": faults,
        "probes": probes,
        "sim_us": info["sim_us"],
        "digest": digest(trace),
        "runs": 1,
        "schedule": info.get("choices"),
    }
    if want_sample and nt:
        res["sample"] = sample_of(scn, trace)
    return res


def gen_default(knobs):
    def gen(seed, tier="quick"):
        return G.gen_retry(seed, knobs)
    return gen
