"""C03 -- retry exactly when permitted: no premature give-up, no wasted backoff.

Oracle rules (DESIGN §6/C03), each evaluated per failed attempt k from the
trace and the configuration only:

R1 no premature give-up : Continues(k)            => attempt k+1 is invoked
R2 no extra attempt     : attempt k+1 invoked     => Continues(k)
R3 no wasted backoff    : a static stop condition holds, or the budget refused
                          => no sleep, no granted token, no `retry` event and no
                          sleep-handler consultation after that failure; and a
                          sleep that did not overshoot past the deadline is
                          followed by an attempt unless an abort poll says stop
R4 success ends the run : nothing but the success bookkeeping after it
R5 budget protocol      : asked at most once per failed attempt; every `retry`
                          has its own granted token; a refusal is never
                          followed by a `retry`
R6 stop reason honest   : the delivered/emitted stop reason is one of the stop
                          conditions that actually hold (holds-set S_k)
The order in which simultaneous stop conditions are tested is not constrained.
"""
from __future__ import annotations

from ..facts import delivered_stop_reason, split_calls, static_holds, terminal_tag

ID = "C03"

KNOBS = {"p_attempt_timeout": 0.1, "p_firing_timeout": 0.12, 
    "modes": ["sync", "async"],
    "p_budget": 0.45, "p_abort": 0.3, "p_decisions": 0.5, "p_handler": 0.5,
    "p_generous": 0.45, "p_ok": 0.15, "p_hostile": 0.1, "p_overshoot": 0.35,
    "p_wall_jumps": 0.1,
}


def V(rule, sig, detail):
    return {"rule": rule, "sig": sig, "detail": detail}


def check_call(scn: dict, cf, out: list, grants=()) -> None:
    cfg = scn["cfg"]
    D = cfg["deadline_us"]
    has_budget = cfg.get("budget") is not None
    entry = f"{scn['mode']}:{scn['entry']}.{scn['how']}"
    if cf.end is None:
        out.append(V("H0", "no CALL_END", {"call": cf.cid}))
        return
    atts = cf.attempts
    aborted_at_seq = None
    for e in cf.events:
        if e["ev"] == "POLL" and e["ans"]:
            aborted_at_seq = e["seq"]
            break
    for idx, a in enumerate(atts):
        nxt = atts[idx + 1] if idx + 1 < len(atts) else None
        post = list(a.post())
        if a.kind == "ok":
            # R4: a success ends the run at once
            bad = [e["ev"] for e in post if e["ev"] in ("SLEEP_BEGIN", "STRATEGY", "BUDGET", "HANDLER", "BEFORE_SLEEP")
                   or (e["ev"] in ("METRIC", "LOG") and e["event"] == "retry")]
            if nxt is not None or bad:
                out.append(V("R4", f"activity after success ({'attempt' if nxt else bad[0]})",
                             {"call": cf.cid, "attempt": a.k, "entry": entry, "after": bad, "next_attempt": nxt is not None}))
            if cf.end["how"] == "raise":
                out.append(V("R4", "success did not deliver a value", {"call": cf.cid, "attempt": a.k, "exc": cf.end["exc"]}))
            continue
        if a.kind not in ("exc", "res"):
            continue  # abort / base exceptions: C13's business
        if a.fclass is None:
            if a.kind == "res" and a.end is not None and cfg.get("result_classifier") and not any(e["ev"] == "POLL" and e["ans"] for e in post) \
                    and not any(e["ev"] == "RCLASSIFY" for e in post) and cf.end["how"] in ("return", "outcome") \
                    and (cf.end["how"] == "return" or cf.end["out"]["ok"]):
                # the configured result classifier calls this value a failure, but it was never asked
                out.append(V("R1", "a returned value was accepted as success without consulting the configured result classifier",
                             {"call": cf.cid, "attempt": a.k, "entry": entry, "value_is_none": bool(a.end.get("none"))}))
            if a.kind == "exc" and nxt is None and not getattr(a, "timed_out", False) and not any(e["ev"] == "POLL" for e in post) \
                    and (cf.end["how"] == "return" or (cf.end["how"] == "outcome" and cf.end["out"]["ok"])):
                out.append(V("R1", "an attempt that raised was taken for a success: the run ended although the failure was never judged",
                             {"call": cf.cid, "attempt": a.k, "entry": entry, "etype": (a.end or {}).get("etype")}))
                continue
            if a.kind == "exc" and a.cls and not getattr(a, "timed_out", False) and not any(e["ev"] == "POLL" and e["ans"] for e in post) \
                    and (nxt is not None or any(e["ev"] in ("STRATEGY", "SLEEP_BEGIN") for e in post)):
                # retried without ever being shown to the classifier (a verdict remembered from the last time this
                # exception object was seen): what counts is what the classifier says about it now
                a.fclass = a.cls
            else:
                # aborted by the poll that precedes classification
                continue
        S = static_holds(cfg, cf, idx)
        budgets = [e for e in post if e["ev"] == "BUDGET" and not e.get("ext")]
        retries = [e for e in post if e["ev"] in ("METRIC", "LOG") and e["event"] == "retry"]
        n_retry = max(sum(1 for e in retries if e["ev"] == "METRIC"), sum(1 for e in retries if e["ev"] == "LOG"))
        handlers = [e for e in post if e["ev"] == "HANDLER"]
        sleeps = [e for e in post if e["ev"] == "SLEEP_BEGIN"]
        sleep_ends = [e for e in post if e["ev"] == "SLEEP_END"]
        polls_true = [e for e in post if e["ev"] == "POLL" and e["ans"]]
        granted = [e for e in budgets if e["granted"]]
        refused = [e for e in budgets if not e["granted"]]
        first_true = polls_true[0]["seq"] if polls_true else None

        def before_abort(e):
            return first_true is None or e["seq"] < first_true

        # ---- R5 budget protocol
        if len(budgets) > 1:
            out.append(V("R5", "budget asked more than once per failed attempt", {"call": cf.cid, "attempt": a.k, "n": len(budgets)}))
        if refused and n_retry:
            out.append(V("R5", "retry reported after a budget refusal", {"call": cf.cid, "attempt": a.k}))
        if has_budget and n_retry and not granted:
            out.append(V("R5", "retry granted without a budget token", {"call": cf.cid, "attempt": a.k}))

        # ---- R3 wasted backoff after a stop condition
        if S or refused:
            why = sorted(S) if S else ["BUDGET_EXHAUSTED"]
            wasted = []
            if sleeps:
                wasted.append("sleep")
            if granted and S:
                wasted.append("budget_token")
            if n_retry:
                wasted.append("retry_event")
            if handlers:
                wasted.append("sleep_handler")
            if wasted:
                out.append(V("R3", f"backoff after stop condition {'+'.join(why)}",
                             {"call": cf.cid, "attempt": a.k, "entry": entry, "holds": why, "wasted": wasted,
                              "max_attempts": cfg["max_attempts"]}))

        # ---- the sleep handler's answer is part of the biconditional: a configured handler must be asked
        place = (scn.get("place") or {}).get("handler", "none")
        if place != "none" and not S and not refused and (n_retry or sleeps) and not handlers and first_true is None:
            out.append(V("R2", "retry continued without consulting the configured sleep handler",
                         {"call": cf.cid, "attempt": a.k, "entry": entry, "slept": bool(sleeps)}))
        # ---- compute Continues(k)
        decision = handlers[0]["decision"] if handlers else "S"
        raw_decision = decision in ("d", "a")
        if raw_decision:
            if nxt is not None or sleeps:
                out.append(V("R2", "extra attempt / sleep although the sleep handler answered 'defer' or 'abort' (as a plain string)",
                             {"call": cf.cid, "attempt": a.k, "entry": entry, "answer": decision, "slept": bool(sleeps), "next_attempt": nxt is not None}))
            continue
        after_sleep_t = sleep_ends[-1]["t"] if sleep_ends else None
        overs = sum(e["overshoot"] for e in sleep_ends)
        permitted = not S and (not has_budget or (budgets and budgets[0]["granted"]))
        cont = permitted and decision == "S" and first_true is None
        if cont and after_sleep_t is not None and after_sleep_t - cf.t0 > D:
            cont = False
        if cont and not sleeps and not S:
            # a granted retry must sleep (C16 R6); without a sleep we cannot place
            # the post-sleep instant -- leave to C16, but the attempt must follow
            pass
        # ---- R1 / R2
        if cont and nxt is None:
            out.append(V("R1", "gave up while retrying was permitted",
                         {"call": cf.cid, "attempt": a.k, "entry": entry, "class": a.fclass, "end": cf.end}))
        if nxt is not None and not cont:
            reasons = sorted(S) + (["BUDGET_REFUSED"] if refused else []) + ([f"HANDLER_{decision}"] if decision != "S" else []) \
                + (["ABORT_POLL"] if first_true is not None else []) \
                + (["DEADLINE_AFTER_SLEEP"] if after_sleep_t is not None and after_sleep_t - cf.t0 > D else []) \
                + (["BUDGET_NOT_ASKED"] if has_budget and not budgets and not S else [])
            out.append(V("R2", f"extra attempt although {'+'.join(reasons) or 'not permitted'}",
                         {"call": cf.cid, "attempt": a.k, "entry": entry, "class": a.fclass}))
        # ---- R3b: a sleep the library sized itself must not be thrown away
        if sleeps and nxt is None and first_true is None and not S and decision == "S" and overs == 0 \
                and after_sleep_t is not None and after_sleep_t - cf.t0 <= D:
            out.append(V("R3", "slept, then gave up without an attempt (no overshoot, no abort)",
                         {"call": cf.cid, "attempt": a.k, "entry": entry}))

        # ---- R6 stop reason honest (only for the final failed attempt)
        if nxt is None:
            holds = set(S)
            if refused:
                holds.add("BUDGET_EXHAUSTED")
            elif has_budget and a.end is not None:
                # the condition itself (the window is full), however the library learnt of it
                b = cfg["budget"]
                ref = post[-1] if post else a.end    # up to the moment the stop was reported
                live = sum(c for (sq, t, c) in grants if sq <= ref["seq"] and ref["t"] - t <= b["window_us"])
                if live + 1 > b["max"]:
                    holds.add("BUDGET_EXHAUSTED")
            if first_true is not None or decision == "A":
                holds.add("ABORTED")
            if decision == "D":
                holds.add("SCHEDULED")
            if after_sleep_t is not None and after_sleep_t - cf.t0 > D:
                holds.add("DEADLINE_EXCEEDED")
            delivered, src = delivered_stop_reason(cf)
            tag, tev = terminal_tag(cf)
            for what, val in (("delivered", delivered), ("event", tag)):
                if val is not None and val not in holds:
                    out.append(V("R6", f"{what} stop reason {val} does not hold (holds: {'+'.join(sorted(holds)) or 'none'})",
                                 {"call": cf.cid, "attempt": a.k, "entry": entry, "source": src if what == "delivered" else tev}))
            if delivered is None and cf.end["how"] == "outcome":
                out.append(V("R6", "failed run delivered no stop reason", {"call": cf.cid, "entry": entry}))


def oracle(scn: dict, trace: list) -> list:
    out: list = []
    calls = split_calls(trace)
    grants = [(e["seq"], e["t"], e["cost"]) for e in trace if e["ev"] == "BUDGET" and e["granted"]]
    for cid in sorted(calls):
        check_call(scn, calls[cid], out, grants)
    return out


# ---------------------------------------------------------------------------
from . import common  # noqa: E402
from .. import gen as G  # noqa: E402

LEVEL = "exploration"
RULE = ("seeded swarm scenarios (config x per-attempt outcome script x timings x budget fill x abort poll index x "
        "sleep-handler decisions x entry point x sync/async) run through the real library under the simulator; "
        "a case is distinct by its trace shape (mode, entry point, per-attempt (kind, class), ending, handler "
        "decisions, #sleeps, #budget refusals, fault kinds fired) and non-trivial if it has >= 1 failed attempt or fault")
COMPONENTS = common.REAL_COMPONENTS
ASSUMPTIONS = [
    "callbacks other than the operation and the sleeper take zero virtual time, so 'at that moment' is one instant",
    "a failure at elapsed >= deadline is not retryable; an attempt may start at elapsed == deadline (C02 wording)",
    "order of simultaneous stop checks is unconstrained (holds-set membership)",
    "sampling, not proof",
]
BUDGETS = {"quick": (72000, 90), "thorough": (3500000, 285)}


def gen(seed, tier="quick"):
    scn = G.gen_retry(seed, KNOBS)
    import random as _random
    r = _random.Random(seed ^ 0xC03)
    if r.random() < 0.06:
        # the handler answers with the plain strings "defer" / "abort" (equal to the SleepDecision members, not
        # identical): however the library takes that -- as the decision, or as an invalid answer -- it says
        # "do not go on", so no further attempt may follow
        for c in scn["calls"]:
            if c.get("decisions"):
                c["decisions"][-1] = r.choice(["d", "a"])
    return scn


def _probes(scn, trace, probes):
    D = scn["cfg"]["deadline_us"]
    t0 = {}
    for e in trace:
        if e["ev"] == "CALL_BEGIN":
            t0[e["call"]] = e["t"]
        elif e["ev"] == "OP_END" and e["kind"] != "ok" and e["t"] - t0.get(e["call"], 0) == D:
            probes["failure_exactly_at_deadline"] = probes.get("failure_exactly_at_deadline", 0) + 1
        elif e["ev"] == "SLEEP_END" and e["t"] - t0.get(e["call"], 0) == D:
            probes["sleep_ends_exactly_at_deadline"] = probes.get("sleep_ends_exactly_at_deadline", 0) + 1
        elif e["ev"] == "HANDLER" and e["decision"] == "D" and e["j"] >= 1:
            probes["handler_defer_on_retry_ge_2"] = probes.get("handler_defer_on_retry_ge_2", 0) + 1
        elif e["ev"] == "BUDGET" and not e["granted"]:
            probes["budget_refused"] = probes.get("budget_refused", 0) + 1


def execute(scn):
    return common.execute_retry(scn, oracle, probes_fn=_probes)
