"""C20 -- Retry-After hints are parsed safely and honoured exactly.

A simulated server: the scripted operation raises an HTTP error stub (status
429 mostly) whose Retry-After is supplied as a header (dict with any key casing,
list of pairs, object with .get/.items, response.headers) or as a `retry_after`
attribute.  HTTP-dates are produced from known instants relative to the
*simulated wall clock*, which is skewed from the monotonic clock and jumps
between attempts.  The policy is the real http_retry_after_classifier + the real
retry_after_or(fallback, jitter_s) inside a real Retry / AsyncRetry; the jitter
draw is scripted (0, top of the interval, seeded); slow attempts shrink the
remaining deadline.

R1 the classifier never raises (observed at the seam; an escape also kills the call)
R2 the hint is None or a number >= 0 (never NaN)
R3 an ASCII decimal integer n with float(n) finite => hint = max(0, n); a
   generated HTTP-date D => hint = max(0, D - wall_now) (+-1 us); strings from a
   garbage alphabet that can form neither => no hint.  Inputs outside these
   three grammars (Unicode digits, underscores, beyond float range, non-strings)
   are only held to R1 / R2
R4 for a finite hint h the delay handed to the sleeper lies in
   [min(h, remaining), min(h + jitter_s, remaining)]
"""
from __future__ import annotations

import asyncio
import datetime as _dt
import math
import random
from email.utils import format_datetime

from redress import RateLimitError, AsyncRetry, Classification, ErrorClass, Retry
from redress import strategies as S
from redress.extras.http import http_retry_after_classifier

from .. import loop as simloop
from .. import seams
from ..clock import SimClock, sec_to_us
from ..facts import V
from ..runner import digest
from .c18 import Draws

ID = "C20"
LEVEL = "exploration"
RULE = ("seeded scenarios: 1-5 attempts, each with a Retry-After value from {decimal integers of 1..5000 digits, signs, "
        "blanks, Unicode digits, underscores, floats, HTTP-dates past/future/naive/odd zones, garbage, non-strings} in a "
        "container from {dict any casing, list of pairs, getter object, response.headers, retry_after attribute}; "
        "jitter_s 0..2 s, deadline tiny..large, wall-clock jumps between attempts, forced jitter draws; distinct by "
        "(value class, container, jitter, deadline bucket) hash; non-trivial = a hint was parsed or a hostile value was offered")
COMPONENTS = {"real": ["redress.extras.http.http_retry_after_classifier (+ _coerce_retry_after/_lookup_header/_parse_retry_after)",
                       "redress.strategies.retry_after_or", "redress.policy Retry / AsyncRetry loop"],
              "stub": ["remote peer (scripted HTTP error with Retry-After)", "wall clock (SimDateTime reading the skewed, jumping SimClock)",
                       "random (ScriptedRandom)", "sleeper / monotonic clock (SimClock)"]}
ASSUMPTIONS = ["the parsing half of this property is input space; the simulator owns the wall clock the dates are relative to, the jitter "
               "draw, the remaining deadline and the peer", "HTTP-dates have 1 s resolution: generated dates are whole-second instants",
               "an infinite numeric retry_after attribute is accepted as a hint (a number >= 0); retry_after_or treats it as absent",
               "sampling, not proof"]
BUDGETS = {"quick": (36000, 90), "thorough": (2500000, 285)}
TOP = 1.0 - 2.0 ** -53
SHAPES = ["dict", "dict_lower", "dict_upper", "dict_mixed", "pairs", "pairs_iter", "getter", "response", "attr_str", "headers_and_attr",
          "empty_dict_and_response", "empty_list_and_response",
          "dict", "pairs", "getter", "response",   # (weights)
          "hostile_getter", "hostile_items", "hostile_mapping", "non_iterable", "bad_pairs", "hostile_str", "hostile_response"]
HOSTILE_SHAPES = {"hostile_getter", "hostile_items", "hostile_mapping", "non_iterable", "bad_pairs", "hostile_str", "hostile_response"}
GARBAGE = ["soon", "later", "n/a", "--", "abc", "x y z", "tomorrow", "!", "never", "retry", "??", "a-b-c", "zz:zz"]


class HttpError(Exception):
    pass


class HttpRateLimited(HttpError, RateLimitError):
    """an SDK's typed 'rate limited' error: carries Retry-After data but no numeric status"""


def is_429(att):
    return att["status"] in (429, "rle")


class Getter:
    """header container that is not a Mapping but has .get/.items"""

    def __init__(self, d):
        self._d = d

    def get(self, k, default=None):
        return self._d.get(k, default)

    def items(self):
        return list(self._d.items())


class Resp:
    def __init__(self, headers):
        self.headers = headers


class HostileGetter:
    def get(self, k, default=None):
        raise RuntimeError("header backend down")

    def items(self):
        raise RuntimeError("header backend down")


class HostileItems:
    def get(self, k, default=None):
        return None

    def items(self):
        raise KeyError("boom")


from collections.abc import Mapping as _Mapping  # noqa: E402


class HostileMapping(_Mapping):
    def __getitem__(self, k):
        raise ZeroDivisionError("x")

    def __iter__(self):
        raise ZeroDivisionError("x")

    def __len__(self):
        return 1


class HostileStr:
    def __str__(self):
        raise ValueError("no str for you")


class HostileResponse:
    @property
    def headers(self):
        raise AttributeError("lazy headers failed")


def gen_value(r):
    x = r.random()
    if x < 0.3:
        n = r.choice([0, 1, 2, 5, 30, 120, 3600, 10**6, r.randrange(0, 10**4), r.randrange(0, 10**12)])
        pad = r.choice(["", "", " ", "  ", "\t"])
        sign = r.choice(["", "", "", "+", "-"])
        return {"t": "int", "s": f"{pad}{sign}{n}{pad}", "n": int(f"{sign}{n}")}
    if x < 0.4:
        d = r.choice([1, 10, 100, 308, 309, 310, 1000, 4299, 4300, 4301, 5000])
        return {"t": "bigint", "s": r.choice(["", "-"]) + "9" * d, "digits": d}
    if x < 0.62:
        return {"t": "date", "delta_s": r.choice([0, 1, 2, 30, 120, 3600, 86400, -1, -30, -86400, r.randrange(-10**5, 10**5)]),
                "fmt": r.choice(["gmt", "gmt", "offset", "naive", "offset_neg"])}
    if x < 0.72:
        return {"t": "garbage", "s": r.choice(GARBAGE)}
    if x < 0.8:
        return {"t": "raw", "v": r.choice(["", " ", "1.5", "1e3", "inf", "nan", "-inf", "1_000", "١٢٣", "１２", "0x10", "12abc", "+-3", "١٢٣" * 120,
                                           "Wed, 21 Oct 2015 07:28:00 +99999999999999", "Wed, 21 Oct 2015 07:28:00 +9959", "Wed, 32 Oct 2015 07:28:00 GMT",
                                           "Mon, 01 Jan 0001 00:00:00 GMT", "Fri, 31 Dec 9999 23:59:59 GMT", "Fri, 31 Dec 9999 23:59:59 -2359", "Mon, 01 Jan 0001 00:00:00 +2359"])}
    if x < 0.88:
        return {"t": "nonstr", "v": r.choice([5, 0, -3, 2.5, True, None, ["5"], {"a": 1}, 10**400, b"5"] if False else ["i5", "i0", "i-3", "f2.5", "bTrue", "none", "list", "dict", "ihuge", "bytes"])}
    return {"t": "num_attr", "v": r.choice(["i5", "i0", "i-3", "f2.5", "f1e308", "finf", "fnan", "f-inf", "ihuge", "i1e309", "bTrue", "f-0.0"])}


def decode_nonstr(code):
    return {"i5": 5, "i0": 0, "i-3": -3, "f2.5": 2.5, "f1e308": 1e308, "finf": float("inf"), "fnan": float("nan"), "f-inf": float("-inf"),
            "ihuge": 10 ** 400, "i1e309": 10 ** 309, "bTrue": True, "none": None, "list": ["5"], "dict": {"a": 1}, "bytes": b"5", "f-0.0": -0.0}[code]


def gen(seed, tier="quick"):
    r = random.Random(seed)
    n = r.randint(1, 5)
    atts = []
    for _ in range(n):
        atts.append({"value": gen_value(r), "shape": r.choice(SHAPES), "status": r.choice([429, 429, 429, 429, 503, 500, "rle"]),
                     "dur": r.choice([0, 1000, 1_000_000, r.randrange(0, 3_000_000)]),
                     "wall_jump": r.choice([0, 0, 1_000_000, -1_000_000, 3_600_000_000, -86_400_000_000, r.randrange(-10**9, 10**9)])})
    return {"kind": "http", "seed": seed, "mode": r.choice(["sync", "async"]), "attempts": atts, "max_attempts": n + r.choice([0, 1]),
            "deadline_us": r.choice([60_000_000, 3_600_000_000, 10**12, 5_000_000, 1_500_000, 500_000]),
            "jitter_us": r.choice([0, 0, 250_000, 1_000_000, 2_000_000]), "fallback_us": r.choice([0, 100_000, 1_000_000]),
            "draws": r.choice(["zero", "top", "seeded", "mixed"]),
            "clock": {"base_us": r.choice([0, 10**9]), "skew_us": r.choice([1_700_000_000_000_000, 1_700_000_000_000_000 + r.randrange(0, 10**12), 946_684_800_000_000])},
            # a per-attempt timeout that never fires (sync: real worker thread, async: wait_for on the SimLoop)
            "attempt_timeout_us": r.choice([None, None, None, None, 20_000_000, 3_600_000_000]),
            "reuse_exc": r.random() < 0.15, "int_hints": r.random() < 0.15}


def build_exc(att, wall_us):
    """-> (exception, expectation)"""
    v = att["value"]
    exp = {"kind": "free"}
    t = v["t"]
    direct = None
    if t == "int":
        header = v["s"]
        exp = {"kind": "int", "n": v["n"]}
    elif t == "bigint":
        header = v["s"]
        n = int(v["s"]) if len(v["s"].lstrip("+-")) <= 4300 else None
        try:
            f = float(n) if n is not None else None
        except OverflowError:
            f = None
        exp = {"kind": "int", "n": n} if f is not None and math.isfinite(f) else {"kind": "free"}
    elif t == "date":
        d_us = ((wall_us // 1_000_000) + v["delta_s"]) * 1_000_000
        d = _dt.datetime(1970, 1, 1, tzinfo=_dt.UTC) + _dt.timedelta(microseconds=d_us)
        if v["fmt"] == "gmt":
            header = format_datetime(d, usegmt=True)
        elif v["fmt"] == "offset":
            header = format_datetime(d.astimezone(_dt.timezone(_dt.timedelta(hours=5, minutes=30))))
        elif v["fmt"] == "offset_neg":
            header = format_datetime(d.astimezone(_dt.timezone(_dt.timedelta(hours=-8))))
        else:
            header = d.strftime("%a, %d %b %Y %H:%M:%S")   # naive: to be read as UTC
        exp = {"kind": "date", "d_us": d_us}
    elif t == "garbage":
        header = v["s"]
        exp = {"kind": "none"}
    elif t == "raw":
        header = v["v"]
    elif t == "nonstr":
        header = decode_nonstr(v["v"])
    else:
        header = None
        direct = decode_nonstr(v["v"])
    if att["status"] == "rle":
        e = HttpRateLimited("http")
    else:
        e = HttpError("http")
        e.status = att["status"]
    shape = att["shape"]
    if shape in HOSTILE_SHAPES and t != "num_attr":
        if shape == "hostile_getter":
            e.headers = HostileGetter()
        elif shape == "hostile_items":
            e.headers = HostileItems()
        elif shape == "hostile_mapping":
            e.headers = HostileMapping()
        elif shape == "non_iterable":
            e.headers = 5
        elif shape == "bad_pairs":
            e.headers = [1, "ab", ("Retry-After",), None]
        elif shape == "hostile_str":
            e.headers = {"Retry-After": HostileStr()}
        else:
            e.response = HostileResponse()
        return e, ({"kind": "free"} if is_429(att) else {"kind": "not_rate_limit"})
    if t == "num_attr":
        e.retry_after = direct
        if is_429(att):
            exp = {"kind": "num", "v": direct}
        return e, exp
    if shape == "attr_str":
        if isinstance(header, str):
            e.retry_after = header
        else:
            e.headers = {"Retry-After": header}
    elif shape == "dict":
        e.headers = {"Retry-After": header}
    elif shape == "dict_lower":
        e.headers = {"retry-after": header}
    elif shape == "dict_upper":
        e.headers = {"RETRY-AFTER": header}
    elif shape == "dict_mixed":
        e.headers = {"Content-Type": "text/plain", "rEtRy-AfTeR": header, "X": "1"}
    elif shape == "pairs":
        e.headers = [("Content-Type", "x"), ("retry-After", header)]
    elif shape == "pairs_iter":
        e.headers = iter([("content-type", "x"), ("retry-after", header), ("x-request-id", "1")])   # one-shot iterator of pairs (lazily decoded headers)
    elif shape == "getter":
        e.headers = Getter({"Retry-After": header})
    elif shape == "response":
        e.response = Resp({"Retry-After": header})
    elif shape == "empty_dict_and_response":
        e.headers = {}
        e.response = Resp({"Retry-After": header})
    elif shape == "empty_list_and_response":
        e.headers = []
        e.response = Resp({"retry-after": header})
    else:  # headers_and_attr: a non-parsable attribute must fall through to the header
        e.retry_after = "n/a"
        e.headers = {"Retry-After": header}
    if not is_429(att):
        exp = {"kind": "not_rate_limit"}
    elif header is None and t in ("nonstr",):
        exp = {"kind": "none"}
    return e, exp


def execute(scn):
    ck = scn["clock"]
    clock = SimClock(ck["base_us"], ck["skew_us"])
    draws = Draws(scn["draws"], scn["seed"])
    seams.bind(clock, draws)
    viol = []
    recs = []      # per attempt: expectation, hint, wall_now, elapsed, sleep
    state = {"k": 0, "t0": None}

    def classifier(exc):
        rec = recs[-1]
        rec["wall_us"] = clock.mono_us + clock.skew_us
        rec["elapsed_us"] = clock.mono_us - state["t0"]
        try:
            c = http_retry_after_classifier(exc)
        except Exception as e:  # R1
            rec["raised"] = type(e).__name__
            raise
        if isinstance(c, Classification):
            rec["hint"] = c.retry_after_s
            rec["klass"] = c.klass.name
            h = c.retry_after_s
            if scn.get("int_hints") and isinstance(h, float) and h == h and abs(h) < 1e15 and h == int(h):
                # a caller-written classifier layered on top that stores whole seconds as a Python int
                c = Classification(klass=c.klass, retry_after_s=int(h), details=c.details)
        else:
            rec["hint"] = None
            rec["klass"] = c.name
        return c

    def op_body():
        k = state["k"]
        att = scn["attempts"][min(k, len(scn["attempts"]) - 1)]
        state["k"] = k + 1
        clock.skew_us += att["wall_jump"]
        return att

    def make_rec(att):
        exc, exp = build_exc(att, clock.mono_us + clock.skew_us)
        recs.append({"att": state["k"], "exp": exp, "value": att["value"], "shape": att["shape"], "status": att["status"]})
        prev = state.get("exc")
        if scn.get("reuse_exc") and prev is not None and type(prev) is type(exc):
            # the client re-raises one cached error object whose Retry-After data it refreshes in place
            prev.__dict__.clear()
            prev.__dict__.update(exc.__dict__)
            exc = prev
        state["exc"] = exc
        return exc

    def sleeper_rec(s):
        recs[-1]["sleep"] = s
        recs[-1]["sleep_at_us"] = clock.mono_us - state["t0"]

    fb = scn["fallback_us"] / 1e6
    strat = S.retry_after_or(lambda ctx: fb, jitter_s=scn["jitter_us"] / 1e6)
    kw = dict(classifier=classifier, strategy=strat, deadline_s=scn["deadline_us"] / 1e6, max_attempts=scn["max_attempts"], max_unknown_attempts=None)
    if scn.get("attempt_timeout_us"):
        kw["attempt_timeout_s"] = scn["attempt_timeout_us"] / 1e6
    escaped = None
    state["t0"] = clock.mono_us
    if scn["mode"] == "sync":
        def op():
            att = op_body()
            clock.advance(att["dur"])
            raise make_rec(att)

        def sl(s):
            sleeper_rec(s)
            clock.advance(sec_to_us(s))
        try:
            Retry(sleeper=sl, **kw).call(op)
        except HttpError:
            pass
        except Exception as e:
            escaped = e
    else:
        async def aop():
            att = op_body()
            await asyncio.sleep(att["dur"] / 1e6)
            raise make_rec(att)

        async def asl(s):
            sleeper_rec(s)
            await asyncio.sleep(s if (isinstance(s, (int, float)) and s == s and 0 <= s < 1e12) else 0)

        async def main(loop):
            try:
                await AsyncRetry(sleeper=asl, **kw).call(aop)
            except HttpError:
                return None
            except Exception as e:
                return e
        escaped, _ = simloop.run(clock, main)
    seams.bind(clock, None)
    D = scn["deadline_us"]
    jit = max(0, scn["jitter_us"]) / 1e6
    probes = {}
    for rec in recs:
        exp = rec["exp"]
        vcls = rec["value"]["t"]
        if "raised" in rec:
            viol.append(V("R1", f"classifier raised {rec['raised']}", {"value": rec["value"], "shape": rec["shape"]}))
            continue
        if "hint" not in rec:
            # the policy never showed this failure to the classifier; if it nevertheless backed off, the wait is still
            # held to the hint the failure carried (known independently for plain integers / numeric attributes)
            h0 = None
            if exp["kind"] == "int":
                h0 = max(0.0, float(exp["n"]))
            elif exp["kind"] == "num" and isinstance(exp["v"], (int, float)) and not isinstance(exp["v"], bool):
                try:
                    h0 = max(0.0, float(exp["v"]))
                except OverflowError:
                    h0 = None
            if "sleep" in rec and "elapsed_us" not in rec and h0 is not None and math.isfinite(h0) and h0 == h0:
                s = rec["sleep"]
                if isinstance(s, (int, float)) and s + 1e-3 < min(h0, (D - (rec.get("sleep_at_us", 0))) / 1e6):
                    viol.append(V("R4", "wait is shorter than the hinted time (the failure was never shown to the classifier)",
                                  {"hint": h0, "slept": s, "value": rec["value"]}))
            continue
        h = rec["hint"]
        if h is not None:
            probes["hint_parsed"] = probes.get("hint_parsed", 0) + 1
            if not isinstance(h, (int, float)) or isinstance(h, bool) or h != h or h < 0:
                viol.append(V("R2", "hint is not a non-negative number", {"hint": repr(h), "value": rec["value"], "shape": rec["shape"]}))
                continue
        if exp["kind"] == "int":
            want = max(0.0, float(exp["n"]))
            if h != want:
                viol.append(V("R3", "decimal integer not honoured as its value", {"value": rec["value"], "shape": rec["shape"], "hint": h, "expected": want}))
        elif exp["kind"] == "date":
            want = max(0, exp["d_us"] - rec["wall_us"]) / 1e6
            if h is None or abs(h - want) > 2e-6:
                viol.append(V("R3", "HTTP-date not honoured as time-until-date on the wall clock", {"value": rec["value"], "shape": rec["shape"], "hint": h, "expected": want}))
            probes["date_hint"] = probes.get("date_hint", 0) + 1
        elif exp["kind"] in ("none", "not_rate_limit"):
            if h is not None:
                viol.append(V("R3", "garbage / absent value produced a hint" if exp["kind"] == "none" else "hint produced for a non-rate-limit status",
                              {"value": rec["value"], "shape": rec["shape"], "hint": h}))
        elif exp["kind"] == "num":
            v = exp["v"]
            if isinstance(v, bool):
                pass
            elif isinstance(v, (int, float)) and not isinstance(v, bool):
                try:
                    f = float(v)
                except OverflowError:
                    f = None
                if f is not None and f == f and h != max(0.0, f):
                    viol.append(V("R3", "numeric retry_after attribute not honoured", {"value": rec["value"], "hint": h, "expected": max(0.0, f)}))
        # R4
        if "sleep" in rec and h is not None and math.isfinite(h):
            rem = (D - rec["elapsed_us"]) / 1e6
            lo, hi = min(h, rem), min(h + jit, rem)
            s = rec["sleep"]
            # where the remaining deadline is the binding bound its sub-millisecond accuracy is C02's business
            tol = 1e-3 if rem < h + jit else 1e-9
            if not (isinstance(s, (int, float)) and lo - tol <= s <= hi + tol):
                viol.append(V("R4", "wait is outside [hint, hint + jitter_s] capped at the remaining deadline",
                              {"hint": h, "jitter_s": jit, "remaining_s": rem, "slept": s, "value": rec["value"]}))
            probes["hint_honoured"] = probes.get("hint_honoured", 0) + 1
            if rem < h:
                probes["hint_capped_by_deadline"] = probes.get("hint_capped_by_deadline", 0) + 1
    if escaped is not None and not any(v["rule"] == "R1" for v in viol):
        viol.append(V("R1", f"call died with {type(escaped).__name__}", {"error": repr(escaped)[:200]}))
    seen = {}
    for v in viol:
        seen.setdefault((v["rule"], v["sig"]), v)
    hostile = sum(1 for a in scn["attempts"] if a["value"]["t"] in ("bigint", "raw", "nonstr", "num_attr"))
    nt = bool(probes.get("hint_parsed")) or hostile > 0
    dbucket = 0 if D <= 5_000_000 else 1
    res = {"violations": list(seen.values()),
           "shape": (tuple((a["value"]["t"], a["value"].get("fmt") or a["value"].get("v") or a["value"].get("digits") or "", a["shape"], a["status"]) for a in scn["attempts"]),
                     scn["jitter_us"], dbucket, scn["mode"]),
           "nontrivial": nt,
           "faults": {"hostile_header": hostile, "wall_jump": sum(1 for a in scn["attempts"][:state["k"]] if a["wall_jump"]), "rand_extreme": draws.extreme,
                      "slow_op": sum(1 for a in scn["attempts"][:state["k"]] if a["dur"])},
           "probes": probes, "sim_us": clock.mono_us - clock.base_us,
           "digest": digest([{k: (repr(v) if isinstance(v, float) else v) for k, v in r.items() if k not in ("value", "exp")} for r in recs]), "runs": 1}
    if nt:
        res["sample"] = {"scenario": scn, "attempts_observed": [{k: (repr(v) if isinstance(v, float) else v) for k, v in r.items() if k != "exp"} for r in recs[:5]]}
    return res
