"""C12 -- all entry points agree: sync/async, call/execute, Policy/Retry/sugar.

One seeded scenario (configuration + environment behaviour) is executed through
every entry point -- Retry, Policy, RetryPolicy, their .context() managers,
@retry, the from_config constructors, x call/execute x sync/async (28 runs) --
each on fresh but identically configured objects and an identically scripted
environment.

R1 the normalised traces are equal: operation invocations, strategy contexts,
   handler / before_sleep / sleeper calls and delays, metric and log streams,
   budget interactions, virtual timestamps; breaker interactions are compared
   among the entry points that have a breaker.  Abort is modelled as state (the
   flag rises during the n-th operation / strategy evaluation / sleep), and the
   number of abort polls and classifier calls is not compared
R2 call vs execute deliver the same fact (value <-> ok/value; raised exception
   object <-> last_exception; RetryExhaustedError fields <-> outcome fields;
   AbortRetryError <-> ABORTED; CircuitOpenError <-> rejected outcome)
Not compared (documented differences): attempt hooks, classifier and abort-poll call counts,
timeline (execute only); the decorator is given an explicit `operation` and
its would-be call-level sleep stubs are installed at policy level.
"""
from __future__ import annotations

import copy
import random

from .. import gen as G
from ..drive import run_retry_scenario
from ..facts import BREAKER_EVENTS, V, split_calls
from ..runner import digest
from . import common

ID = "C12"
LEVEL = "exploration"
KNOBS = {"p_firing_timeout": 0.12, "p_decisions": 0.45, "p_handler": 0.5, "p_abort": 0.45, "p_abort_if": 0.7, "p_budget": 0.35, "p_generous": 0.45, "p_ok": 0.18,
         "p_hostile": 0.12, "p_overshoot": 0.3, "p_att_hooks": 0.5, "p_single_call": 0.8}
RULE = ("each seeded scenario is run through all 28 entry-point variants and the normalised traces are compared pairwise "
        "against the sync Retry.call run (incl. firing attempt timeouts, interrupted operations, raising strategy/sleeper); distinct by trace shape of the reference run; non-trivial = >=1 failed attempt")
COMPONENTS = common.REAL_COMPONENTS
ASSUMPTIONS = ["of the abnormal terminations only an interruption raised by the operation itself is generated (the rest is C08/C13's domain)",
               "normalisation is limited to the documented differences listed in the module docstring", "sampling, not proof"]
BUDGETS = {"quick": (8000, 90), "thorough": (250000, 285)}
SHRINK_CAP = 150

CALL_ENTRIES = G.SYNC_ENTRIES
EXEC_ENTRIES = G.EXEC_ENTRIES
BREAKER_ENTRIES = ("Policy", "Policy.context")


def gen(seed, tier="quick"):
    scn = G.gen_retry(seed, KNOBS)
    r = random.Random(seed ^ 0xC12)
    scn["entry"], scn["how"], scn["mode"] = "Retry", "call", "sync"
    scn["hooks"]["operation"] = scn["hooks"]["operation"] or "op"
    # abort as *state*: the flag rises at a trace-defined moment (during the n-th operation, strategy evaluation or
    # sleep, or before the call), so the comparison does not depend on how often each entry point polls
    for c in scn["calls"]:
        if c.get("abort_at") is not None:
            c["abort_at"] = None
            c["abort_when"] = r.choice([{"ev": "CALL_BEGIN", "n": 1}, {"ev": "OP_END", "n": r.randint(1, 3)}, {"ev": "STRATEGY", "n": r.randint(1, 2)},
                                        {"ev": "STRATEGY", "n": 1}, {"ev": "BUDGET", "n": 1},
                                        {"ev": "SLEEP_END", "n": r.randint(1, 2)}, {"ev": "OP_BEGIN", "n": r.randint(1, 3)}])
    scn["hooks"]["timeline"] = r.choice([None, True])
    if r.random() < 0.08:
        # the operation is itself a policy call that gave up: its RetryExhaustedError passes through every entry point
        call = scn["calls"][0]
        i = r.randrange(0, max(1, min(scn["cfg"]["max_attempts"], len(call["attempts"]))))
        call["attempts"][i] = {"kind": "nested_ree", "dur": call["attempts"][i].get("dur", 0)}
    scn["place"]["bs_async"] = r.random() < 0.5
    scn["place"]["sleeper_kind"] = r.choice(["async", "sync", "aw"])
    if r.random() < 0.1:
        # the operation is interrupted (part of "the same behaviour of the operation"): every entry point lets the
        # interruption through and has the same breaker / budget interactions up to and including that moment
        call = scn["calls"][0]
        i = r.randrange(0, max(1, min(scn["cfg"]["max_attempts"], len(call["attempts"]))))
        call["attempts"][i] = {"kind": "base", "exc": r.choice(["KeyboardInterrupt", "SystemExit", "CancelledError"]), "dur": call["attempts"][i].get("dur", 0)}
    if r.random() < 0.08:
        # "the same behaviour of the ... callbacks": the caller's own strategy or sleeper raises at its
        # i-th invocation (classifier call counts legitimately differ between entry points, so classifiers are left
        # out); every entry point must do the same work up to that point and let the same error out
        call = scn["calls"][0]
        site = r.choice(["strategy", "strategy", "sleeper", "attempt_start"])    # (attempt_end: where the hook runs relative to the breaker record legitimately differs)
        if site.startswith("attempt_"):
            scn["place"]["att_hooks"] = "call"       # per-call hooks exist on every entry point
        call["faults"] = [{"site": site, "at": r.randrange(0, 3),
                           "exc": r.choice(["ValueError", "RuntimeError", "KeyError", "Custom"]), "kind": "callback_raise"}]
    if r.random() < 0.12:
        # async entry points get a plain callable that returns an awaitable; some failures happen eagerly, at call time
        scn["cfg"]["eager_async_op"] = True
        for c in scn["calls"]:
            for st in c["attempts"]:
                if st["kind"] == "exc" and r.random() < 0.6:
                    st["eager"] = True
                    st["dur"] = 0
    if r.random() < 0.4:
        scn["cfg"]["breaker"] = {"kind": "real", "failure_threshold": r.choice([1, 2, 3]), "window_us": 60_000_000,
                                 "recovery_us": r.choice([1_000_000, 30_000_000])}
        if r.random() < 0.4:
            scn["pre"] = (scn.get("pre") or []) + [["fail", "TRANSIENT"]] * r.randint(1, 3) + [["adv", r.choice([0, 1_000_000, 30_000_000])]]
    return scn


def variants():
    for mode in ("sync", "async"):
        for e in CALL_ENTRIES:
            yield mode, e, "call"
        for e in EXEC_ENTRIES:
            yield mode, e, "execute"


def result_fact(cf):
    end = cf.end
    if end is None:
        return ("none",)
    if end["how"] == "return":
        return ("value", end["value"])
    if end["how"] == "raise":
        exc = end["exc"]
        if str(exc.get("obj") or "").startswith("N"):
            return ("nested", exc.get("obj"))      # the operation's own RetryExhaustedError, passed through
        if "ree" in exc:
            r = exc["ree"]
            return ("ree", r["stop_reason"], r["attempts"], r["last_class"], r["last_exception"], r["last_result"], r["next_sleep_s"])
        if exc["type"] == "AbortRetryError":
            return ("aborted",)
        if exc["type"] == "CircuitOpenError":
            return ("rejected",)
        return ("exc", exc.get("obj"))
    o = end["out"]
    if o["ok"]:
        return ("value", o["value"])
    if o["attempts"] == 0 and o["last_exception_type"] == "CircuitOpenError":
        return ("rejected",)
    if o["stop_reason"] == "ABORTED":
        return ("aborted",)
    if o["cause"] == "result" or o["stop_reason"] == "SCHEDULED":
        return ("ree", o["stop_reason"], o["attempts"], o["last_class"], o["last_exception"], o["last_result"], o["next_sleep_s"])
    return ("exc", o["last_exception"])


DROP = {"SUSPEND", "YIELD", "ATT_START", "ATT_END", "CALL_BEGIN", "CALL_END", "ADVANCE", "POLL", "CLASSIFY", "RCLASSIFY", "BEFORE_SLEEP_END"}


def normalise(trace, with_breaker):
    out = []
    seen_classify = set()
    k_now = {}
    for e in trace:
        ev = e["ev"]
        if ev in DROP:
            continue
        if ev == "OP_BEGIN":
            k_now[e["call"]] = e["k"]
        if ev in ("CLASSIFY", "RCLASSIFY"):
            key = (e["call"], k_now.get(e["call"]), ev)
            if key in seen_classify:
                continue
            seen_classify.add(key)
        if ev == "BREAKER":
            if with_breaker:
                out.append(("BREAKER", e["call"], e["t"], e["m"], e.get("cls"), e.get("ret"), e["state"]))
            continue
        if ev in ("METRIC", "LOG") and e["event"] in BREAKER_EVENTS:
            if with_breaker:
                out.append((ev, e["call"], e["t"], e["event"], digest(e.get("tags") or e.get("fields"))))
            continue
        d = {k: v for k, v in e.items() if k not in ("seq", "i", "j")}
        out.append(d)
    return out


def execute(scn):
    ref_env = None
    results = {}
    calls_by_key = {}
    runs = 0
    viol = []
    faults = {}
    sim_us = 0
    for mode, entry, how in variants():
        v = copy.deepcopy(scn)
        v["mode"], v["entry"], v["how"] = mode, entry, how
        if how == "call":
            v["hooks"]["timeline"] = None
        env, info = run_retry_scenario(v)
        runs += 1
        sim_us += info["sim_us"]
        calls = split_calls(env.trace)
        calls_by_key[(mode, entry, how)] = calls
        results[(mode, entry, how)] = (normalise(env.trace, False),
                                       normalise(env.trace, True) if entry in BREAKER_ENTRIES else None,
                                       {cid: result_fact(cf) for cid, cf in calls.items()})
        if ref_env is None:
            ref_env = env
    ref_key = ("sync", "Retry", "call")
    ref = results[ref_key]
    br_ref_key = ("sync", "Policy", "call")
    has_breaker = bool(scn["cfg"].get("breaker"))
    for key, (norm, norm_b, facts) in results.items():
        name = f"{key[0]}:{key[1]}.{key[2]}"
        # with a breaker that rejects, breaker-less entries legitimately differ: compare within groups
        group_ref = ref
        if has_breaker:
            group_ref = results[br_ref_key] if key[1] in BREAKER_ENTRIES else ref
        if norm != group_ref[0]:
            a, b = group_ref[0], norm
            k = next((i for i, (x, y) in enumerate(zip(a, b)) if x != y), min(len(a), len(b)))
            viol.append(V("R1", f"trace of {key[1]}.{key[2]} ({key[0]}) differs from the reference entry point",
                          {"entry": name, "index": k, "reference": a[k] if k < len(a) else None, "got": b[k] if k < len(b) else None}))
        if has_breaker and key[1] in BREAKER_ENTRIES and norm_b != results[br_ref_key][1]:
            a, b = results[br_ref_key][1], norm_b
            k = next((i for i, (x, y) in enumerate(zip(a, b)) if x != y), min(len(a), len(b)))
            viol.append(V("R1", f"breaker interactions of {key[1]}.{key[2]} ({key[0]}) differ from sync Policy.call",
                          {"entry": name, "index": k, "reference": a[k] if k < len(a) else None, "got": b[k] if k < len(b) else None}))
        if key[2] == "execute":
            for cid, cf in calls_by_key[key].items():
                if cf.end is not None and cf.end["how"] == "raise" and not str(cf.end["exc"].get("obj") or "").startswith(("N", "B", "F")):
                    viol.append(V("R2", f"{key[1]}.execute ({key[0]}) raised instead of returning a RetryOutcome",
                                  {"entry": name, "exc": cf.end["exc"]}))
        if facts != group_ref[2]:
            viol.append(V("R2", f"{key[1]}.{key[2]} ({key[0]}) delivers a different final result",
                          {"entry": name, "reference": group_ref[2], "got": facts}))
    trace = ref_env.trace
    for e in trace:
        if e["ev"] == "OP_END":
            if e["kind"] == "exc":
                faults["op_exc"] = faults.get("op_exc", 0) + 1
            elif e["kind"] == "res":
                faults["op_result"] = faults.get("op_result", 0) + 1
    for k2, v2 in ref_env.fault_counts.items():
        faults[k2] = faults.get(k2, 0) + v2
    nt = common.nontrivial(trace, ref_env)
    res = {"violations": viol, "shape": common.shape_of(scn, trace, ref_env), "nontrivial": nt, "faults": faults, "probes": {},
           "sim_us": sim_us, "digest": digest([r[0] for r in results.values()]), "runs": runs}
    if nt:
        res["sample"] = common.sample_of(scn, trace, 40)
    return res
