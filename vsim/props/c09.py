"""C09 -- one breaker record per policy call, by final outcome, not per attempt.

A pure spy breaker (always admits) is attached to Policy / AsyncPolicy, call and
execute, with and without a retry component; the run itself is drawn from the
full C03 scenario space, as sequences of calls sharing the spy and (async) as
concurrently running calls.  Besides normal endings the cancellation types the
statement names are injected: abort flag / AbortRetryError, KeyboardInterrupt,
SystemExit, and task cancellation at a seeded suspension point.

Per admitted call:
R1 exactly one record_* reaches the breaker
R2 record_success iff a value was finally returned; record_failure(K) with
   K = class of the final failure iff retries stopped for any other reason
   (including SCHEDULED); record_cancel iff the call was aborted or cancelled
R3 no record is made while the call is still going to retry (every record
   follows the last operation invocation)
Classifier invocation counts are not compared.
"""
from __future__ import annotations

import random

from .. import gen as G
from ..facts import V, analyze, entry_name, pre_aborted
from . import common

ID = "C09"
LEVEL = "exploration"
KNOBS = {"entries": ["Policy", "Policy.context"], "p_abort": 0.25, "p_abort_if": 0.6, "p_decisions": 0.4, "p_handler": 0.45,
         "p_budget": 0.25, "p_generous": 0.55, "p_ok": 0.2, "p_retryable": 0.8, "p_single_call": 0.5, "max_calls": 4}
RULE = ("seeded swarm over Policy/AsyncPolicy x call/execute x with/without retry with a spy breaker; C03 scenario space "
        "plus injected abort / KeyboardInterrupt / SystemExit / task cancellation; sequences and concurrent calls sharing "
        "the spy; 12% falsy breaker object, 18% one exception object aliased across calls/policies with disagreeing classifiers, "
        "12% failures raised while handling a nested rejection; distinct by trace shape; non-trivial = >=1 failed attempt or fault")
COMPONENTS = dict(common.REAL_COMPONENTS, stub=common.REAL_COMPONENTS["stub"] + ["circuit breaker (pure spy: always admits, records calls)"])
ASSUMPTIONS = ["calls in which a user callback (attempt hook, classifier, strategy) raises are only held to R1 (exactly one record)",
               "GeneratorExit and nested policy errors are C08's domain and not generated",
               "sampling, not proof"]
BUDGETS = {"quick": (60000, 90), "thorough": (2500000, 285)}


def gen(seed, tier="quick"):
    scn = G.gen_retry(seed, KNOBS)
    r = random.Random(seed ^ 0xC09)
    scn["cfg"]["breaker"] = {"kind": "spy"}
    twist = r.random()
    if twist < 0.12:
        scn["cfg"]["breaker"]["falsy"] = True      # a breaker object whose truth value is False
    if 0.42 <= twist < 0.54:
        scn["cfg"]["breaker"]["reject"] = sorted(r.sample(range(0, 5), r.randint(1, 2)))   # the spy refuses these admissions
    alias = 0.12 <= twist < 0.3 and len(scn["calls"]) > 1
    for ci, c in enumerate(scn["calls"]):
        for st in c["attempts"]:
            if st["kind"] != "exc":
                continue
            if alias:
                # one exception object travelling through several calls / policies whose classifiers disagree about it
                st["status_cls"] = r.choice(G.CLASSES)
                if ci and r.random() < 0.6:
                    st["reuse_any"] = True
            elif 0.3 <= twist < 0.42 and r.random() < 0.5:
                st["ctx_coe"] = True                  # raised while handling a nested breaker's rejection
        x = r.random()
        if x < 0.25:
            c["entry"] = "Policy.noretry"
            c["how"] = r.choice(["call", "execute"])
        elif scn["entry"] == "Policy":
            c["how"] = r.choice(["call", "execute"])
        # cancellation-type faults (~30 % of calls)
        y = r.random()
        n = max(1, min(scn["cfg"]["max_attempts"], len(c["attempts"])))
        if y < 0.1:
            c["attempts"][r.randrange(n)] = {"kind": "abort", "dur": 0}
        elif y < 0.22:
            c["attempts"][r.randrange(n)] = {"kind": "base", "exc": r.choice(["KeyboardInterrupt", "SystemExit", "HybridInterrupt", "HybridExit", "HybridCancelled"] + (["CancelledError"] if scn["mode"] == "async" else [])), "dur": 0}
        elif y < 0.3:
            c.setdefault("faults", []).append({"site": "sleeper", "at": r.randrange(0, 2), "exc": r.choice(["KeyboardInterrupt", "SystemExit"]), "kind": "base_exc"})
        elif y < 0.42 and scn["mode"] == "async":
            c.setdefault("faults", []).append({"site": "cancel", "at": r.randrange(0, 5), "frac": r.choice([0, 50])})
        elif y < 0.52:
            # misbehaving user callback: only "exactly one record" (R1) is demanded of such calls
            site = r.choice(["attempt_end", "attempt_end", "attempt_start", "classifier", "strategy"])
            c.setdefault("faults", []).append({"site": site, "at": r.choice(["always", 0, 1]), "exc": r.choice(["RuntimeError", "ValueError", "AbortRetryError"]),
                                               "kind": "callback_raise"})
            if site.startswith("attempt") and scn["place"].get("att_hooks", "none") == "none":
                scn["place"]["att_hooks"] = r.choice(["call", "policy", "both"])
    if scn["mode"] == "async" and len(scn["calls"]) > 1 and r.random() < 0.5:
        scn["concurrent"] = True
        for c in scn["calls"]:
            c.pop("before", None)
            c["start_us"] = r.choice([0, 0, 1000, 250_000])
    return scn


def oracle(scn, trace):
    out = []
    for cid, (cf, infos) in analyze(scn, trace).items():
        if cf.begin is None or cf.end is None:
            continue
        ent = f"{scn['mode']}:{cf.begin['entry']}.{cf.begin['how']}"
        recs = [e for e in cf.events if e["ev"] == "BREAKER" and e["m"] != "allow"]
        admitted = any(e["ev"] == "BREAKER" and e["m"] == "allow" and e["ret"] for e in cf.events)
        if not admitted:
            if recs:
                out.append(V("R1", "breaker record made by a call that was not admitted",
                             {"entry": ent, "call": cid, "records": [(r["m"], r.get("cls")) for r in recs]}))
            continue
        end = cf.end
        # expected record
        last = infos[-1] if infos else None
        cancelled = False
        why = None
        if end["how"] == "raise" and end["exc"]["type"] in ("KeyboardInterrupt", "SystemExit", "CancelledError", "AbortRetryError",
                                                             "HybridInterrupt", "HybridExit", "HybridCancelled"):
            cancelled, why = True, end["exc"]["type"]
        elif end["how"] == "outcome" and end["out"]["stop_reason"] == "ABORTED":
            cancelled, why = True, "ABORTED outcome"
        if cancelled:
            exp = ("record_cancel", None)
        elif (end["how"] == "return") or (end["how"] == "outcome" and end["out"]["ok"]):
            exp = ("record_success", None)
            why = "value returned"
        else:
            rec = [i for i in infos if i.recorded] if cf.begin["entry"] != "Policy.noretry" else []
            if cf.begin["entry"] == "Policy.noretry":
                K = (last.a.end.get("dcls") or last.a.cls) if last is not None and last.a.end is not None else None
                if K == "UNKNOWN" or K is None:
                    K = "UNKNOWN"
                if last is not None and last.a.end is not None and last.a.end.get("etype") == "SimTimeoutError":
                    K = "TRANSIENT"   # default_classifier (no retry component): any TimeoutError is TRANSIENT
            else:
                K = rec[-1].a.fclass if rec else None
            exp = ("record_failure", K)
            why = "retries stopped"
        tag = f"{ent} end={why}"
        callback_fault = any(e["ev"] == "FAULT" and e["site"] in ("attempt_end", "attempt_start", "classifier", "strategy") for e in cf.events)
        if len(recs) != 1:
            out.append(V("R1", f"{len(recs)} breaker records for one admitted call",
                         {"entry": ent, "call": cid, "ending": why, "records": [(r["m"], r.get("cls")) for r in recs], "end": end}))
            continue
        r0 = recs[0]
        if callback_fault:
            continue  # which record is right after a raising user callback is not stated; exactly-once is
        if r0["m"] != exp[0] or (exp[0] == "record_failure" and exp[1] is not None and r0.get("cls") != exp[1]):
            out.append(V("R2", f"recorded {r0['m']}{'(' + r0['cls'] + ')' if r0.get('cls') else ''}, expected {exp[0]}{'(' + exp[1] + ')' if exp[1] else ''}",
                         {"entry": ent, "call": cid, "ending": why, "history": [(a.kind, a.fclass) for a in cf.attempts]}))
        ops = [e for e in cf.events if e["ev"] == "OP_BEGIN"]
        if ops and r0["seq"] < ops[-1]["seq"]:
            out.append(V("R3", "breaker record made before the final attempt", {"entry": ent, "call": cid}))
    return out


def execute(scn):
    return common.execute_retry(scn, oracle)
