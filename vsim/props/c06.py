"""C06 -- the breaker opens exactly when counted failures reach a threshold in the window.

(a) component histories of 1..40 operations allow / record_success /
    record_failure(K) / record_cancel / advance(dt) on a real CircuitBreaker on
    the simulated clock, refined step by step against RefBreaker:
    R1 after every operation performed while CLOSED the state agrees
    R2 record_failure returns circuit_opened exactly when the model opens
(b) policy-level histories (sync Policy with and without retry, call/execute)
    sharing one real breaker, with idle time and direct component operations in
    between: the breaker's method log is refined the same way
    R3 while the model is closed the operation of every call is invoked
Mismatches of operations performed while OPEN / HALF_OPEN belong to C07 and
end the comparison without being reported here.
"""
from __future__ import annotations

import random

from ..component import run_breaker_history
from ..drive import run_retry_scenario
from ..facts import V, split_calls
from ..runner import digest
from . import breaker_common as BC
from . import common

ID = "C06"
LEVEL = "exploration"
RULE = ("seeded histories on a dyadic time grid (1/8 s) so window arithmetic is float-exact: thresholds 1..4, class "
        "thresholds 1..3 on 0-2 classes, trip_on random (incl. empty and classes covered only by class thresholds), "
        "window vs recovery in both orders, advances biased to window_s / recovery_timeout_s exactly and +-1/8 s; 70% "
        "component level, 30% policy level; distinct by (config, op sequence, state sequence) hash; non-trivial = the "
        "breaker left CLOSED at least once or a counted failure aged out")
COMPONENTS = {"real": ["redress.circuit.CircuitBreaker", "policy level: redress.policy.Policy/Retry + execution helpers"],
              "stub": ["clock (SimClock)", "operation/classifier (scripted)", "RefBreaker is the oracle"]}
ASSUMPTIONS = ["rolling window is half-open: a failure aged exactly window_s no longer counts",
               "a failure recorded while OPEN is ignored (statement silent; model mirrors the code)", "sampling, not proof"]
BUDGETS = {"quick": (120000, 90), "thorough": (6000000, 285)}


def gen(seed, tier="quick"):
    r = random.Random(seed)
    if r.random() < 0.7:
        cfg = BC.gen_breaker_cfg(r)
        return {"kind": "breaker_hist", "grid": BC.U, "seed": seed, "cfg": cfg, "ops": BC.gen_breaker_ops(r, cfg), "base_us": r.choice([0, 8 * BC.U, 4096 * BC.U]),
                "sibling": BC.maybe_sibling(r, cfg)}
    return BC.gen_policy_history(seed, {"max_calls": 8}, modes=("sync",))


def execute(scn):
    viol = []
    probes = {}
    if scn["kind"] == "breaker_hist":
        steps, clock = run_breaker_history(scn)
        states = []
        for st in steps:
            states.append(st["real"]["state"])
            if st["real"] != st["model"]:
                if st["model_state_before"] == "closed":
                    name = st["op"][0]
                    rule = "R2" if name == "fail" else "R1"
                    viol.append(V(rule, f"{ {'fail': 'record_failure', 'success': 'record_success', 'cancel': 'record_cancel', 'allow': 'allow'}[name]} while closed: breaker and model disagree",
                                  {"step": st, "cfg": scn["cfg"]}))
                break
        opened = sum(1 for st in steps if st["real"].get("ret") == "circuit_opened")
        if opened:
            probes["opened"] = opened
        shape = (digest(scn["cfg"]), tuple(tuple(o) for o in scn["ops"]))
        nt = any(s != "closed" for s in states)
        res = {"violations": viol, "shape": shape, "nontrivial": nt, "faults": {"clock_advance": sum(1 for o in scn["ops"] if o[0] == "adv" and o[1])},
               "probes": probes, "sim_us": clock.mono_us - clock.base_us, "digest": digest(steps), "runs": 1,
               "states": [(s["model_state_before"], s["op"][0], s["model"]["state"]) for s in steps]}
        if nt:
            res["sample"] = {"scenario": scn, "steps": steps[:30]}
        return res
    env, info = run_retry_scenario(scn)
    v, states = BC.refine_policy_log(scn, env.trace, "C06")
    viol.extend(v)
    nt = any(e["ev"] == "BREAKER" and e["state"] != "closed" for e in env.trace)
    res = {"violations": viol, "shape": common.shape_of(scn, env.trace, env), "nontrivial": nt,
           "faults": {"clock_advance": sum(1 for e in env.trace if e["ev"] == "ADVANCE" and e["us"]),
                      "op_exc": sum(1 for e in env.trace if e["ev"] == "OP_END" and e["kind"] == "exc")},
           "probes": {"policy_level_histories": 1}, "sim_us": info["sim_us"], "digest": digest(env.trace), "runs": 1, "states": list(states)}
    if nt:
        res["sample"] = common.sample_of(scn, env.trace, 40)
    return res
