"""C17 -- Budget and CircuitBreaker are atomic under concurrent threads.

Real threads run the real component code; a baton scheduler decides, from the
seed, which thread runs at every yield point: before every source line of
circuit.py / budget.py (thorough tier adds: before every bytecode) and at every
lock acquire / release (threading.Lock inside the component is a cooperative
SimLock).  The clock is frozen while the threads race.

Scenario = initial state built sequentially (breaker: closed one short of a
threshold; open exactly at / past the timeout; half-open with and without a
probe in flight; budget: one short of capacity; tokens about to age out) + 2-3
threads x 1-3 public operations + a fixed sequential probe suffix.

R1 linearizability: some total order of the operations, consistent with
   real-time order, replayed single-threaded on a fresh instance of the SAME
   component, reproduces every per-thread result and the probe-suffix results
   (the sequential specification is the component's own sequential behaviour,
   so purely sequential bugs -- C06/C07/C10's business -- raise no alarm here)
   corollaries named in the signature: two probes admitted, circuit_opened
   returned twice, over-grant
R5 no interleaving deadlocks (nobody runnable while somebody is unfinished) or
   overruns the step cap
"""
from __future__ import annotations

import random
import weakref

from redress import Budget, CircuitBreaker, ErrorClass

from .. import seams
from ..clock import SimClock
from ..facts import V
from ..lin import linearizable_by_replay
from ..models import RefBreaker, RefBudget
from ..runner import digest
from ..threads import FAKE, Deadlock, Scheduler, StepCap

ID = "C17"
LEVEL = "exploration"
U = 125_000
RULE = ("seeded small concurrent programs (2-3 threads x 1-3 ops over the public API of one Budget or one CircuitBreaker, "
        "from the initial states listed in the docstring) x seeded schedules (uniform random at every yield; PCT-style "
        "priorities with <=3 change points; run-to-completion with <=2 pre-emptions); distinct = distinct (program, "
        "context-switch sequence); non-trivial = at least one context switch inside an operation; `states` = distinct "
        "component states observed at yield points")
COMPONENTS = {"real": ["redress.circuit.CircuitBreaker", "redress.budget.Budget", "real OS threads (parked / released one at a time)"],
              "stub": ["threading.Lock inside the component (cooperative SimLock)", "thread scheduler (baton, seeded)", "clock (frozen SimClock)",
                       "oracle: brute-force linearizability against the component's own single-threaded replay"]}
ASSUMPTIONS = ["pre-emption granularity: source lines of circuit.py/budget.py (quick), bytecodes (part of thorough)",
               "the clock does not move while the threads race where linearizability is demanded (each method samples the clock before "
               "taking the lock; a sample that predates a concurrent advance is a question of time-stamping, not of atomicity); 30% of "
               "the budget scenarios do move the clock and are held to the window bound on the grant stamps only",
               "sampling of schedules, not exhaustive enumeration"]
INTERLEAVING_MEASURE = "distinct (concurrent program, context-switch sequence) pairs"
STATES_MEASURE = "distinct component states (state, probe flag, history length / tokens, lock held) observed at yield points"
BUDGETS = {"quick": (9000, 90), "thorough": (400000, 285)}
SHRINK_CAP = 120
TRIP = ["TRANSIENT", "SERVER_ERROR"]


# -- scenario generation ----------------------------------------------------
def gen(seed, tier="quick"):
    r = random.Random(seed)
    comp = r.choice(["breaker", "breaker", "budget"])
    scn = {"kind": "threads", "grid": U, "seed": seed, "component": comp}
    if comp == "breaker":
        F = r.choice([1, 2, 3])
        cfg = {"F": F, "window_us": 80 * U, "recovery_us": 8 * U, "trip_on": None,
               "class_thresholds": r.choice([{}, {}, {"SERVER_ERROR": 1}, {"TRANSIENT": 2}])}
        kind = r.choice(["closed_near", "open_at_timeout", "open_past", "half_open_probe", "half_open_free", "open_before", "closed"])
        init = []
        if kind == "closed_near":
            init = [["fail", "TRANSIENT"]] * (F - 1)
        elif kind.startswith("open") or kind.startswith("half"):
            init = [["fail", "TRANSIENT"]] * F
            if kind == "open_at_timeout":
                init.append(["adv", 8 * U])
            elif kind == "open_past":
                init.append(["adv", 9 * U])
            elif kind == "open_before":
                init.append(["adv", 7 * U])
            elif kind == "half_open_probe":
                init += [["adv", 8 * U], ["allow"]]
            elif kind == "half_open_free":
                init += [["adv", 8 * U], ["allow"], ["cancel"]]
        scn["cfg"] = cfg
        scn["init_kind"] = kind
        scn["init"] = init
        pool = [["allow"], ["allow"], ["fail", "TRANSIENT"], ["fail", "SERVER_ERROR"], ["success"], ["cancel"], ["state"], ["fail", "PERMANENT"]]
        scn["suffix"] = [["state"], ["allow"], ["state"], ["fail", "TRANSIENT"], ["state"]]
        if r.random() < 0.15 and kind in ("closed", "closed_near"):
            # time moves while the threads race, far enough for a trip -> recovery -> probe cycle to happen inside
            # the race; held to "no deadlock, no exception" only (see the budget note on clock samples)
            scn["moving_clock"] = True
            pool = pool + [["adv", 8 * U], ["adv", 8 * U], ["allow"], ["success"]]
        elif r.random() < 0.2:
            # the injected clock is itself thread-safe (takes its own lock), and some caller reads breaker.state while
            # holding that lock: legal, and harmless as long as the breaker never calls the clock with its lock held
            scn["locked_clock"] = True
            pool = pool + [["state_locked"], ["state_locked"]]
    else:
        mx = r.choice([1, 1, 2, 3, 4])
        cfg = {"max": mx, "window_us": 8 * U}
        kind = r.choice(["near_full", "ageing", "empty", "empty", "empty", "full"])
        init = []
        if kind == "near_full":
            init = [["consume", 1]] * (mx - 1)
        elif kind == "full":
            init = [["consume", 1]] * mx
        elif kind == "ageing":
            init = [["consume", 1]] * mx + [["adv", r.choice([7 * U, 8 * U])]]
        scn["cfg"] = cfg
        scn["init_kind"] = kind
        scn["init"] = init
        pool = [["consume", 1], ["consume", 1], ["consume", 2], ["remaining"]]
        if r.random() < 0.15:
            pool = pool + [["consume", 2.0]]      # a cost that passes the `< 1` check but is not an int: raises inside the critical section
        scn["suffix"] = [["remaining"], ["consume", 1], ["remaining"]]
        if r.random() < 0.3:
            # time moves while the threads race (each method samples the clock before it takes the lock)
            scn["moving_clock"] = True
            pool = [["consume", 1], ["consume", 1], ["consume", 1], ["adv", 5 * U], ["adv", 4 * U], ["adv", U], ["remaining"]]
            scn["suffix"] = ([["adv", 4 * U]] + [["consume", 1]] * mx + [["remaining"], ["adv", 4 * U]] + [["consume", 1]] * mx)
    nthreads = r.choice([2, 2, 3])
    scn["threads"] = [[list(r.choice(pool)) for _ in range(r.choice([1, 1, 2, 3]))] for _ in range(nthreads)]
    if comp == "breaker" and scn.get("moving_clock"):
        # one thread reports a (late) failure while another drives a whole trip -> recovery -> probe -> outcome cycle
        late = [["fail", "TRANSIENT"]]
        cycle = [["fail", "TRANSIENT"], ["adv", 8 * U], ["allow"], r.choice([["success"], ["fail", "TRANSIENT"]])]
        scn["threads"] = [late, cycle] + ([[list(r.choice(pool))]] if nthreads == 3 else [])
        if r.random() < 0.7:
            scn["cfg"]["F"] = 1
            scn["init"] = []
            scn["init_kind"] = "closed"
    scn["strategy"] = r.choice(["random", "random", "pct", "rtc"])
    scn["opcode"] = (tier == "thorough" and r.random() < 0.35)
    return scn


def make_chooser(scn):
    sched = scn.get("schedule")
    if sched is not None:
        it = iter(sched)

        def replay(runnable, cur):
            try:
                c = next(it)
            except StopIteration:
                return cur if cur in runnable else runnable[0]
            return c if c in runnable else (cur if cur in runnable else runnable[0])
        return replay
    r = random.Random((scn["seed"] * 6364136223846793005 + 1442695040888963407) & (2**64 - 1))
    strat = scn.get("strategy", "random")
    n = len(scn["threads"])
    if strat == "random":
        return lambda runnable, cur: r.choice(runnable)
    if strat == "pct":
        prio = list(range(n))
        r.shuffle(prio)
        change = sorted(r.sample(range(1, 120), 3))
        step = [0]

        def pct(runnable, cur):
            step[0] += 1
            if change and step[0] >= change[0]:
                change.pop(0)
                if cur is not None:
                    prio.remove(cur)
                    prio.insert(0, cur)   # lowest priority
            return max(runnable, key=lambda t: prio.index(t))
        return pct
    preempt = sorted(r.sample(range(1, 80), 2))
    step = [0]

    def rtc(runnable, cur):
        step[0] += 1
        if cur in runnable and not (preempt and step[0] >= preempt[0]):
            return cur
        if preempt and step[0] >= preempt[0]:
            preempt.pop(0)
        others = [t for t in runnable if t != cur] or runnable
        return r.choice(others)
    return rtc


# -- model adapters -----------------------------------------------------------
def apply_breaker_model(m, name, arg, now):
    if name == "allow":
        adm, ev = m.allow(now)
        return (adm, ev, m.state)
    if name == "success":
        return m.record_success(now)
    if name == "fail":
        return m.record_failure(now, arg)
    if name == "cancel":
        return m.record_cancel(now)
    if name == "state":
        return m.state
    raise AssertionError(name)


AUX = {}   # id(instance) -> {"clock": SimClock, "lock": SimLock}  (side table: the components may use __slots__)


def apply_breaker_real(b, name, arg):
    if name == "adv":
        AUX[id(b)]["clock"].advance(arg)
        return None
    if name == "state_locked":
        with AUX[id(b)]["lock"]:
            return b.state.value
    if name == "allow":
        d = b.allow()
        return (d.allowed, d.event, d.state.value)
    if name == "success":
        return b.record_success()
    if name == "fail":
        return b.record_failure(ErrorClass[arg])
    if name == "cancel":
        return b.record_cancel()
    if name == "state":
        return b.state.value
    raise AssertionError(name)


def apply_budget_model(m, name, arg, now):
    if name == "consume":
        return m.consume(now, arg)
    return m.remaining(now)


def apply_budget_real(b, name, arg):
    if name == "adv":
        AUX[id(b)]["clock"].advance(arg)
        return None
    if name == "consume":
        return b.consume(arg)
    return b.remaining()


def execute(scn):
    seams.install_threading(FAKE)
    FAKE.locks = []
    FAKE.sched = None
    AUX.clear()
    comp = scn["component"]
    cfg = scn["cfg"]
    viol = []

    def build():
        """fresh real component + its clock, with the sequential initial history replayed"""
        ck = SimClock(0)
        seams.bind(ck, None)
        aux = {"clock": ck, "lock": None}
        if comp == "breaker":
            clock_fn = ck.monotonic
            if scn.get("locked_clock"):
                lk = FAKE.Lock()
                aux["lock"] = lk

                def clock_fn(lk=lk, ck=ck):
                    with lk:
                        return ck.monotonic()
            inst = CircuitBreaker(failure_threshold=cfg["F"], window_s=cfg["window_us"] / 1e6, recovery_timeout_s=cfg["recovery_us"] / 1e6,
                                  class_thresholds={ErrorClass[k]: v for k, v in (cfg.get("class_thresholds") or {}).items()} or None,
                                  clock=clock_fn)
        else:
            inst = Budget(max_retries=cfg["max"], window_s=cfg["window_us"] / 1e6)
        AUX[id(inst)] = aux
        for op in scn["init"]:
            if op[0] == "adv":
                ck.advance(op[1])
            else:
                ar(inst, op[0], op[1] if len(op) > 1 else None)
        return inst, ck

    if comp == "breaker":
        ar = apply_breaker_real
    else:
        ar = apply_budget_real
    try:
        real, clock = build()
    except Deadlock:
        return {"violations": [V("R5", "deadlock under a legal interleaving", {"component": comp, "detail": "an operation re-acquires its own lock (single thread)"})],
                "shape": None, "nontrivial": False, "runs": 1, "sim_us": 0, "faults": {}, "probes": {}}
    if comp == "breaker":
        def probe():   # best-effort peek at internals, only used to count distinct states reached
            try:
                return (real._state.value, real._probe_in_flight, len(real._failures), getattr(real._lock, "owner", None) is not None)
            except Exception:
                return ("?",)
    else:
        def probe():
            try:
                return (len(real._events), getattr(real._lock, "owner", None) is not None)
            except Exception:
                return ("?",)
    now = clock.mono_us
    gseq = [0]
    history = []

    def worker(tid, ops):
        def run():
            for i, op in enumerate(ops):
                a = op[1] if len(op) > 1 else None
                gseq[0] += 1
                inv = gseq[0]
                t_inv = clock.mono_us
                try:
                    res = ar(real, op[0], a)
                except Exception as exc:  # a race can make real code raise (e.g. deque mutated)
                    res = "raised:" + type(exc).__name__
                gseq[0] += 1
                history.append({"tid": tid, "i": i, "inv": inv, "ret": gseq[0], "name": op[0], "arg": a, "result": res,
                                "t_inv": t_inv, "t_ret": clock.mono_us})
        return run

    sched = Scheduler(make_chooser(scn), files=("redress/circuit.py", "redress/budget.py"), opcode=bool(scn.get("opcode")), step_cap=20000)
    sched.state_probe = probe
    FAKE.sched = sched
    hang = None
    try:
        sched.run([worker(t, ops) for t, ops in enumerate(scn["threads"])])
    except Deadlock as d:
        hang = f"deadlock: threads {d.args[0]} blocked forever"
    except StepCap:
        hang = "step cap exceeded"
    finally:
        FAKE.sched = None
    errs = [w.error for w in sched.workers if w.error is not None]
    if hang:
        viol.append(V("R5", hang.split(":")[0] + " under a legal interleaving", {"component": comp, "init": scn["init_kind"], "detail": hang,
                                                                               "threads": scn["threads"]}))
    elif errs:
        viol.append(V("R1", "operation raised under a legal interleaving", {"component": comp, "errors": [repr(e) for e in errs]}))
    else:
        for lk in FAKE.locks:
            lk.owner = None
        suffix_res = []
        t_suffix0 = clock.mono_us
        for op in scn["suffix"]:
            a = op[1] if len(op) > 1 else None
            try:
                suffix_res.append(ar(real, op[0], a))
            except Deadlock:
                suffix_res.append("deadlock")
            except Exception as exc:  # noqa: BLE001
                suffix_res.append("raised:" + type(exc).__name__)
        def make_instance():
            inst, _ck = build()          # rebinding the clock seam is fine: the racing phase is over
            return inst
        if scn.get("moving_clock") and comp == "breaker":
            ok = True        # deadlocks / exceptions were judged above; results are not compared when time moves
        elif scn.get("moving_clock"):
            # Time moved during the race.  Each consume() stamps its grant with a clock sample taken somewhere between
            # its invocation and its return, so linearizability against a replay (which samples at one point) is not
            # demanded; what must hold for every interleaving is the window bound on those stamps: if grants worth
            # more than max_retries certainly lie inside one window (latest return - earliest invocation < window_s)
            # the budget over-granted.
            grants = [(h["t_inv"], h["t_ret"], h["arg"]) for h in history if h["name"] == "consume" and h["result"] is True]
            t = t_suffix0
            for (op, res_) in zip(scn["suffix"], suffix_res):
                if op[0] == "adv":
                    t += op[1]
                elif op[0] == "consume" and res_ is True:
                    grants.append((t, t, op[1]))
            w = cfg["window_us"]
            for g in grants:
                inside = [h for h in grants if h[0] >= g[0] and h[1] < g[0] + w]
                if sum(h[2] for h in inside) > cfg["max"]:
                    viol.append(V("R1", "over-grant under a moving clock: more than max_retries tokens certainly inside one window",
                                  {"component": comp, "cfg": cfg, "grants": sorted(inside), "history": sorted(history, key=lambda h: h["inv"]),
                                   "suffix": list(zip(map(tuple, scn["suffix"]), suffix_res))}))
                    break
            ok = True
        else:
            def ar_safe(inst, n, a):
                try:
                    return ar(inst, n, a)
                except Deadlock:
                    return "deadlock"
                except Exception as exc:  # noqa: BLE001 - the replay must see what the threads saw
                    return "raised:" + type(exc).__name__

            ok, w = linearizable_by_replay(make_instance, history, ar_safe,
                                           [(o[0], o[1] if len(o) > 1 else None) for o in scn["suffix"]], suffix_res)
        seams.bind(clock, None)
        if not ok:
            sig = "no sequential order of the same operations explains the results"
            if comp == "breaker":
                probes_adm = sum(1 for h in history if h["name"] == "allow" and h["result"][0] and h["result"][2] == "half_open")
                opened = sum(1 for h in history if h["result"] == "circuit_opened")
                if probes_adm > 1:
                    sig += " (two racing probes both admitted)"
                elif opened > 1:
                    sig += " (circuit_opened returned more than once)"
            else:
                g = sum(h["arg"] for h in history if h["name"] == "consume" and h["result"] is True)
                if g > cfg["max"]:
                    sig += " (over-grant)"
            viol.append(V("R1", sig, {"component": comp, "init": scn["init_kind"], "cfg": cfg,
                                      "history": sorted(history, key=lambda h: h["inv"]), "suffix": list(zip(map(tuple, scn["suffix"]), suffix_res))}))
    # compress the schedule to its context-switch sequence
    cs = []
    for t in sched.schedule:
        if not cs or cs[-1] != t:
            cs.append(t)
    res = {"violations": viol, "shape": (digest([scn["component"], scn["cfg"], scn["init"], scn["threads"]]), tuple(cs)),
           "nontrivial": sched.switches > len(scn["threads"]) - 1,
           "faults": {"thread_preempt": sched.switches}, "probes": {"lock_contended": sched.contended} if sched.contended else {},
           "sim_us": 0, "digest": digest([sorted(history, key=lambda h: h["inv"]), sched.schedule]), "runs": 1,
           "states": [(comp,) + s for s in sched.states], "schedule": list(sched.schedule),
           "interleaving": (digest([scn["component"], scn["cfg"], scn["init"], scn["threads"]]), tuple(cs))}
    if res["nontrivial"]:
        res["sample"] = {"scenario": {k: v for k, v in scn.items() if k != "schedule"}, "context_switch_sequence": cs[:60],
                         "history": sorted(history, key=lambda h: h["inv"])}
    return res
