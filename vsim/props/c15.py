"""C15 -- observability hooks can never alter control flow (fault enumeration).

A silent reference run counts the invocations of on_metric, on_log and
before_sleep; then, for EACH hook, for EVERY invocation index i (and "always"),
the run is repeated with that hook raising an ordinary exception there.
Exception types rotate through Exception, ValueError, RuntimeError, KeyError,
TimeoutError, StopIteration, AbortRetryError, RetryExhaustedError,
CircuitOpenError, asyncio.TimeoutError, OSError and a custom subclass.

R1 the projection of the faulty run to operation invocations, strategy calls,
   handler consultations, sleeps, budget and breaker interactions and the
   delivered result equals the reference run's (same virtual timestamps)
R2 the *other* hooks and the timeline receive the same events as in the
   reference run
R3 the faulty hook is still offered every event (it is not disabled)
"""
from __future__ import annotations

import copy
import random

from .. import gen as G
from ..drive import run_retry_scenario
from ..facts import V, entry_name, split_calls
from ..runner import chooser_for, digest
from . import common

ID = "C15"
LEVEL = "fault_enumeration"
KNOBS = {"p_metric": 0.9, "p_log": 0.85, "p_before_sleep": 0.8, "p_decisions": 0.35, "p_handler": 0.4, "p_abort": 0.25,
         "p_budget": 0.3, "p_generous": 0.55, "p_ok": 0.2, "p_retryable": 0.85, "p_single_call": 0.85, "max_calls": 3}
RULE = ("per seeded base scenario (C03 space + breaker events + timeline; sync and async, plain and awaitable "
        "before_sleep): exhaustive enumeration of (hook, invocation index | always) with rotating exception types; "
        "evaluations = base scenarios, simulated_runs = reference + fault runs; distinct by reference trace shape; "
        "non-trivial = a hook fault actually fired")
COMPONENTS = common.REAL_COMPONENTS
ASSUMPTIONS = ["only exceptions deriving from Exception are injected (BaseException subclasses are C13's domain)",
               "fault points are enumerated completely per base scenario; base scenarios are sampled"]
BUDGETS = {"quick": (4500, 90), "thorough": (500000, 285)}
SHRINK_CAP = 200
EXC = ["Exception", "ValueError", "RuntimeError", "KeyError", "TimeoutError", "StopIteration", "AbortRetryError",
       "RetryExhaustedError", "CircuitOpenError", "AsyncTimeoutError", "OSError", "Custom", "TypeError", "AttributeError",
       "IndexError", "AssertionError", "NotImplementedError", "ZeroDivisionError", "UnicodeError", "EOFError", "ImportError",
       "MemoryError", "RecursionError", "StopAsyncIteration", "LookupError", "ArithmeticError", "BufferError", "ReferenceError",
       "SystemError", "ConnectionError", "PermissionError", "Warning"]
CONTROL = ("OP_BEGIN", "OP_END", "STRATEGY", "HANDLER", "SLEEP_BEGIN", "SLEEP_END", "BUDGET", "BREAKER", "CALL_END", "POLL")


def gen(seed, tier="quick"):
    scn = G.gen_retry(seed, KNOBS)
    r = random.Random(seed ^ 0xC15)
    if scn["entry"] in ("Policy", "Policy.context") and r.random() < 0.7:
        scn["cfg"]["breaker"] = {"kind": "real", "failure_threshold": r.choice([1, 1, 2]), "window_us": 60_000_000,
                                 "recovery_us": r.choice([1_000_000, 30_000_000])}
        if r.random() < 0.5:
            scn["pre"] = (scn.get("pre") or []) + [["fail", "TRANSIENT"], ["adv", r.choice([0, 1_000_000, 30_000_000])]]
    elif r.random() < 0.06:
        scn["entry"] = "Policy.noretry"
        scn["cfg"]["breaker"] = {"kind": "real", "failure_threshold": 1, "recovery_us": 1_000_000}
    if scn["how"] == "execute" and scn["entry"] != "Policy.noretry":
        scn["hooks"]["timeline"] = r.choice([True, True, "obj", None])
    scn["exc_rot"] = r.randrange(len(EXC))
    if r.random() < 0.2:
        # slow hooks: time passes inside on_metric / on_log whether or not they then raise
        for c in scn["calls"]:
            c["hook_dur"] = [r.choice([0, 1000, 250_000, 1_000_000]) for _ in range(r.randint(1, 3))]
    if r.random() < 0.12:
        scn["warnings_as_errors"] = True     # the process runs with -W error
    if scn["mode"] == "sync" and len(scn["calls"]) > 1 and r.random() < 0.5:
        for c in scn["calls"][1:]:
            c["on_thread"] = True             # later calls on the same policy object come from another OS thread
    return scn


def _run(scn):
    if scn.get("warnings_as_errors"):
        import warnings
        with warnings.catch_warnings():
            warnings.simplefilter("error")
            return run_retry_scenario(scn, chooser=chooser_for(scn) if scn["mode"] == "async" else None)
    return run_retry_scenario(scn, chooser=chooser_for(scn) if scn["mode"] == "async" else None)


def _control(trace):
    out = []
    for e in trace:
        if e["ev"] in CONTROL:
            d = {k: v for k, v in e.items() if k not in ("seq",)}
            if e["ev"] == "CALL_END" and e["how"] == "outcome":
                d = dict(d)
                o = dict(d["out"])
                d["timeline"] = o.pop("timeline", None)
                d["out"] = o
            out.append(d)
    return out


def _hook_stream(trace, name):
    ev = {"on_metric": "METRIC", "on_log": "LOG", "before_sleep": "BEFORE_SLEEP"}[name]
    return [{k: v for k, v in e.items() if k not in ("seq", "i", "j")} for e in trace if e["ev"] == ev]


def execute(scn):
    ent = entry_name(scn)
    env0, info0 = _run(scn)
    runs = 1
    sim_us = info0["sim_us"]
    ref_control = _control(env0.trace)
    ref_streams = {h: _hook_stream(env0.trace, h) for h in ("on_metric", "on_log", "before_sleep")}
    counts = {h: len(ref_streams[h]) for h in ref_streams}
    viol = []
    faults = {}
    digests = [digest(env0.trace)]
    rot = scn.get("exc_rot", 0)
    ncalls = len(scn["calls"])
    # per-call invocation counts (fault indices are per call)
    per_call = {h: {} for h in counts}
    evname = {"on_metric": "METRIC", "on_log": "LOG", "before_sleep": "BEFORE_SLEEP"}
    for e in env0.trace:
        for h, evn in evname.items():
            if e["ev"] == evn:
                per_call[h][e["call"]] = per_call[h].get(e["call"], 0) + 1
    n_fault_runs = 0
    fired_any = False
    for h in ("on_metric", "on_log", "before_sleep"):
        plans = []
        for cid in range(ncalls):
            n = per_call[h].get(cid, 0)
            for i in range(n):
                plans.append((cid, i))
            if n:
                plans.append((cid, "always"))
        for (cid, at) in plans:
            x = EXC[(rot + n_fault_runs) % len(EXC)]
            v = copy.deepcopy(scn)
            v.pop("schedule", None)
            v["calls"][cid].setdefault("faults", []).append({"site": h, "at": at, "exc": x, "kind": "hook_raise"})
            env, info = _run(v)
            runs += 1
            n_fault_runs += 1
            sim_us += info["sim_us"]
            digests.append(digest(env.trace))
            fired = env.fault_counts.get("hook_raise", 0)
            faults["hook_raise"] = faults.get("hook_raise", 0) + fired
            faults["hook_raise:" + h] = faults.get("hook_raise:" + h, 0) + fired
            tag = f"{h}[call {cid}] raises {x} at {at}"
            if not fired:
                viol.append(V("R3", f"{h} was not offered the event it was offered in the reference run", {"fault": tag, "entry": ent}))
                continue
            fired_any = True
            ctl = _control(env.trace)
            if ctl != ref_control:
                k = next((i for i, (a, b) in enumerate(zip(ref_control, ctl)) if a != b), min(len(ref_control), len(ctl)))
                viol.append(V("R1", f"a raising {h} changed the run",
                              {"fault": tag, "entry": ent, "index": k, "reference": ref_control[k] if k < len(ref_control) else None,
                               "got": ctl[k] if k < len(ctl) else None}))
            for other in ("on_metric", "on_log", "before_sleep"):
                got = _hook_stream(env.trace, other)
                if other == h:
                    if len(got) != len(ref_streams[h]) or got != ref_streams[h]:
                        viol.append(V("R3", f"a raising {h} is no longer offered every event", {"fault": tag, "entry": ent, "reference_n": len(ref_streams[h]), "got_n": len(got)}))
                elif got != ref_streams[other]:
                    viol.append(V("R2", f"a raising {h} changed what {other} received", {"fault": tag, "entry": ent, "reference_n": len(ref_streams[other]), "got_n": len(got)}))
    for e in env0.trace:
        if e["ev"] == "OP_END" and e["kind"] in ("exc", "res"):
            key = "op_exc" if e["kind"] == "exc" else "op_result"
            faults[key] = faults.get(key, 0) + 1
    seen = {}
    for v in viol:
        seen.setdefault((v["rule"], v["sig"]), v)
    probes = {"fault_runs": n_fault_runs}
    res = {"violations": list(seen.values()), "shape": common.shape_of(scn, env0.trace, env0), "nontrivial": fired_any,
           "faults": faults, "probes": probes, "sim_us": sim_us, "digest": digest(digests), "runs": runs}
    if fired_any:
        res["sample"] = {"scenario": scn, "hook_invocations_in_reference": counts, "fault_runs": n_fault_runs, "trace_head": env0.trace[:25]}
    return res
