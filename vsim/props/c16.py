"""C16 -- sleep-handler protocol: SLEEP sleeps, DEFER schedules, ABORT aborts.

Per granted retry:
R1 exactly one HANDLER(delay) consultation (none when no handler is configured)
   with the applied delay and a context equal field by field to the one built
   for the strategy
R2 SLEEP  => before_sleep(delay) (if configured) then exactly one sleeper(delay),
   then the next attempt (subject to the deadline / abort rules of C02 / C13)
R3 DEFER  => no before_sleep, no sleep, no further attempt; the run ends SCHEDULED
   with next_sleep_s = delay
R4 ABORT  => neither; the run ends ABORTED
R5 call-level handler / before_sleep / sleeper override the policy-level ones
R6 without a handler every granted retry sleeps
"""
from __future__ import annotations

import random

from .. import gen as G
from ..facts import V, analyze, delivered_stop_reason, entry_name, feq
from . import common

ID = "C16"
LEVEL = "exploration"
KNOBS = {"p_handler": 0.85, "p_before_sleep": 0.8, "p_sleeper": 0.8, "p_decisions": 0.8, "p_abort": 0.08, "p_budget": 0.15,
         "p_generous": 0.7, "p_ok": 0.1, "p_retryable": 0.95, "p_per_class": 0.15, "p_hostile": 0.1}
RULE = ("seeded swarm: handler decision sequences (SLEEP..., then DEFER/ABORT/none) over the retries of a run; all 4 "
        "placements (policy, call, both, neither) independently for handler, before_sleep and sleeper with "
        "distinguishable stubs; async with awaitable and plain before_sleep/sleeper, default time.sleep/asyncio.sleep "
        "seams when no sleeper is given; distinct by trace shape; non-trivial = >=1 failed attempt")
COMPONENTS = common.REAL_COMPONENTS
ASSUMPTIONS = ["the decorator has no call-level sleep plumbing; its placements are policy-level", "sampling, not proof"]
BUDGETS = {"quick": (60000, 90), "thorough": (2800000, 285)}


def gen(seed, tier="quick"):
    scn = G.gen_retry(seed, KNOBS)
    r = random.Random(seed ^ 0xC16)
    if r.random() < 0.3:
        # a slow (blocking) sleep handler: the deadline may pass while it thinks; its answer still decides
        D = scn["cfg"]["deadline_us"]
        for c in scn["calls"]:
            c["handler_dur"] = [r.choice([0, 1000, 500_000, D, D + 1, 2 * D + 1_000_000]) for _ in range(r.randint(1, 3))]
    return scn


def _expected_which(place):
    if place in ("call", "both"):
        return "call"
    if place in ("policy", "both-policy"):
        return "policy"
    return None


def oracle(scn, trace):
    out = []
    ent = entry_name(scn)
    place = dict(scn.get("place") or {})
    w_handler = _expected_which(place.get("handler", "none"))
    w_before = _expected_which(place.get("before_sleep", "none"))
    w_sleeper = _expected_which(place.get("sleeper", "none")) or "default"
    for cid, (cf, infos) in analyze(scn, trace).items():
        for inf in infos:
            a = inf.a
            if a.kind not in ("exc", "res") or not inf.retry_granted:
                continue
            granted_visible = inf.n_retry or inf.handlers or inf.sleeps or inf.before
            if not granted_visible:
                continue
            # "the computed delay" = the one delay the library computed for this retry (whether it is the right
            # number is C05's business): the first announcement among retry event / handler / before_sleep / sleeper
            delay = inf.applied
            aborted_early = inf.first_true is not None  # abort poll between grant and sleep: C13's business

            def same(x):
                return feq(x, delay)

            # R1
            if w_handler is None:
                if inf.handlers:
                    out.append(V("R1", "handler consulted although none is configured", {"call": cid, "attempt": a.k, "entry": ent}))
            elif not aborted_early:
                if len(inf.handlers) != 1:
                    out.append(V("R1", f"handler consulted {len(inf.handlers)} times for one granted retry", {"call": cid, "attempt": a.k, "entry": ent}))
            for h in inf.handlers:
                if not same(h["sleep_s"]):
                    out.append(V("R1", "handler received a delay different from the applied one", {"call": cid, "attempt": a.k, "got": h["sleep_s"], "expected": delay, "entry": ent}))
                if h["which"] != w_handler:
                    out.append(V("R5", "policy-level handler used although a call-level one was given", {"call": cid, "attempt": a.k, "used": h["which"], "expected": w_handler, "entry": ent}))
                if inf.strategies:
                    s = inf.strategies[0]
                    c = h["ctx"]
                    if c is None:
                        out.append(V("R1", "handler received no context", {"call": cid, "attempt": a.k, "entry": ent}))
                    elif s["style"] == "ctx":
                        for f, sf in (("attempt", "attempt"), ("cls", "cls"), ("prev", "prev"), ("remaining", "remaining"), ("cause", "cause"), ("ra", "ra")):
                            if c[f] != s[sf]:
                                out.append(V("R1", f"handler context field {f} differs from the strategy's context", {"call": cid, "attempt": a.k, "handler": c, "strategy": {k: s[k] for k in ("attempt", "cls", "prev", "remaining", "cause", "ra")}, "entry": ent}))
                    else:
                        # a legacy strategy only sees (attempt, class, prev): compare those with what it was given
                        if c["attempt"] != s["attempt"] or c["cls"] != s["cls"] or c["prev"] != s["prev"]:
                            out.append(V("R1", "handler context differs from what the (legacy) strategy was given", {"call": cid, "attempt": a.k, "handler": c,
                                         "strategy": {k: s[k] for k in ("attempt", "cls", "prev")}, "entry": ent}))
            if aborted_early:
                continue
            d = inf.decision
            if d == "S":
                # R2 / R6
                if w_before is not None:
                    if len(inf.before) != 1:
                        out.append(V("R2", f"before_sleep called {len(inf.before)} times on SLEEP", {"call": cid, "attempt": a.k, "entry": ent}))
                elif inf.before:
                    out.append(V("R2", "before_sleep called although none is configured", {"call": cid, "attempt": a.k, "entry": ent}))
                for b in inf.before:
                    if not same(b["sleep_s"]):
                        out.append(V("R2", "before_sleep received a different delay", {"call": cid, "attempt": a.k, "got": b["sleep_s"], "expected": delay, "entry": ent}))
                    if b["which"] != w_before:
                        out.append(V("R5", "policy-level before_sleep used although a call-level one was given", {"call": cid, "attempt": a.k, "used": b["which"], "expected": w_before, "entry": ent}))
                if len(inf.sleeps) != 1:
                    rule = "R6" if w_handler is None else "R2"
                    out.append(V(rule, f"{len(inf.sleeps)} sleeper calls for a granted retry that should sleep", {"call": cid, "attempt": a.k, "entry": ent}))
                for s in inf.sleeps:
                    if not same(s["delay"]):
                        out.append(V("R2", "sleeper received a different delay", {"call": cid, "attempt": a.k, "got": s["delay"], "expected": delay, "entry": ent}))
                    if s["which"] != w_sleeper:
                        out.append(V("R5", "wrong sleeper used (call-level must override policy-level; default only when none)", {"call": cid, "attempt": a.k, "used": s["which"], "expected": w_sleeper, "entry": ent}))
                if inf.before and inf.sleeps and inf.before[0]["seq"] > inf.sleeps[0]["seq"]:
                    out.append(V("R2", "before_sleep ran after the sleep", {"call": cid, "attempt": a.k, "entry": ent}))
                ends = [e for e in inf.post if e["ev"] == "BEFORE_SLEEP_END"]
                if ends and inf.sleeps and ends[0]["seq"] > inf.sleeps[0]["seq"]:
                    # "before_sleep and THEN ... the sleeper": an awaited hook must have finished before the sleeper is called
                    out.append(V("R2", "sleeper called while the awaited before_sleep hook was still in flight", {"call": cid, "attempt": a.k, "entry": ent}))
                if inf.handlers and inf.sleeps and inf.handlers[0]["seq"] > inf.sleeps[0]["seq"]:
                    out.append(V("R2", "handler consulted after the sleep", {"call": cid, "attempt": a.k, "entry": ent}))
                if inf.nxt is None and not inf.deadline_after_sleep and inf.sleeps and inf.sleep_ends:
                    # abort polls after the sleep are legitimate stops
                    polls_after = [p for p in inf.polls if p["seq"] > inf.sleep_ends[-1]["seq"] and p["ans"]]
                    if not polls_after:
                        out.append(V("R2", "SLEEP was not followed by the next attempt", {"call": cid, "attempt": a.k, "entry": ent}))
            else:
                rule = "R3" if d == "D" else "R4"
                if inf.before or inf.sleeps:
                    out.append(V(rule, f"{'DEFER' if d == 'D' else 'ABORT'} still ran before_sleep/sleeper", {"call": cid, "attempt": a.k, "before": len(inf.before), "sleeps": len(inf.sleeps), "entry": ent}))
                if inf.nxt is not None:
                    out.append(V(rule, f"{'DEFER' if d == 'D' else 'ABORT'} was followed by another attempt", {"call": cid, "attempt": a.k, "entry": ent}))
                    continue
                delivered, src = delivered_stop_reason(cf)
                want = "SCHEDULED" if d == "D" else "ABORTED"
                if delivered != want:
                    out.append(V(rule, f"run did not end {want}", {"call": cid, "attempt": a.k, "delivered": delivered, "end": cf.end, "entry": ent}))
                end = cf.end
                nss = None
                if end is not None and end["how"] == "outcome":
                    nss = end["out"]["next_sleep_s"]
                elif end is not None and end["how"] == "raise" and "ree" in end["exc"]:
                    nss = end["exc"]["ree"]["next_sleep_s"]
                if d == "D" and not same(nss):
                    out.append(V("R3", "next_sleep_s is not the deferred delay", {"call": cid, "attempt": a.k, "next_sleep_s": nss, "expected": delay, "entry": ent}))
                if d == "A" and nss is not None:
                    out.append(V("R4", "next_sleep_s set on an aborted run", {"call": cid, "attempt": a.k, "entry": ent}))
    return out


def _probes(scn, trace, probes):
    for e in trace:
        if e["ev"] == "HANDLER":
            probes["decision_" + e["decision"]] = probes.get("decision_" + e["decision"], 0) + 1
            if e["decision"] != "S" and e["j"] >= 1:
                probes["non_sleep_decision_on_retry_ge_2"] = probes.get("non_sleep_decision_on_retry_ge_2", 0) + 1
        elif e["ev"] == "SLEEP_BEGIN":
            probes["sleeper_" + e["which"]] = probes.get("sleeper_" + e["which"], 0) + 1


def execute(scn):
    return common.execute_retry(scn, oracle, probes_fn=_probes)
