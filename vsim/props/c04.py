"""C04 -- call() surfaces exactly the last attempt's value or exception.

R1 success: the returned object *is* the value object of the (first) attempt
   classified success
R2 exception-caused stop: the raised object *is* the last attempt's own
   exception, its traceback still ends at the operation's raise site, no wrapper
R3 result-caused stop or deferral: RetryExhaustedError with stop_reason in the
   holds-set (SCHEDULED for deferral), attempts = #invocations, last_class = class
   of the final failure, exactly the right one of last_result / last_exception
   (identity), next_sleep_s = applied delay iff SCHEDULED else None
"""
from __future__ import annotations

from .. import gen as G
from ..facts import V, analyze, entry_name, feq, pre_aborted
from . import common

ID = "C04"
LEVEL = "exploration"
KNOBS = {"hows": ["call"], "p_frozen_exc": 0.12, "p_attempt_timeout": 0.25, "p_aw_value": 0.3, "p_result": 0.8, "p_decisions": 0.5, "p_handler": 0.55, "p_abort": 0.12, "p_budget": 0.3,
         "p_generous": 0.5, "p_ok": 0.15, "p_retryable": 0.8, "p_per_class": 0.5}
RULE = ("seeded swarm over call-mode entry points (Retry/Policy/RetryPolicy, contexts, decorator, from_config; sync+async) "
        "with mixed exception/result histories so that every stop reason is reached with both causes, plus DEFER/ABORT; "
        "identity of surfaced objects checked with `is`; distinct by trace shape; non-trivial = >=1 failed attempt")
COMPONENTS = common.REAL_COMPONENTS
ASSUMPTIONS = ["every value/exception object produced by the scripted operation is fresh, so identity is checkable",
               "abnormal terminations (raising callbacks, cancellation) are C08/C13's domain and not generated", "sampling, not proof"]
BUDGETS = {"quick": (60000, 90), "thorough": (3000000, 285)}


def gen(seed, tier="quick"):
    import random
    scn = G.gen_retry(seed, KNOBS)
    r = random.Random(seed ^ 0xC04)
    if scn["mode"] == "async" and len(scn["calls"]) > 1 and scn["entry"] != "decorator" and r.random() < 0.6:
        # overlapping calls on one policy object -- and, for the context-manager entries, through ONE bound context
        # object: every call must still get its own operation's result / exception
        scn["concurrent"] = True
        scn["shared_context"] = True
        for c in scn["calls"]:
            c.pop("before", None)
            c["start_us"] = r.choice([0, 0, 1000, 250_000])
            for st in c["attempts"]:
                if st.get("dur", 0) == 0:
                    st["dur"] = r.choice([0, 1000, 250_000, 500_000])
    return scn


def oracle(scn, trace):
    out = []
    ent = entry_name(scn)
    for cid, (cf, infos) in analyze(scn, trace).items():
        end = cf.end
        if end is None or not infos:
            continue
        inf = infos[-1]
        a = inf.a
        strays = [e for e in cf.events if e["ev"] == "OP_BEGIN" and e.get("wrong_owner") is not None]
        if strays:
            out.append(V("R1", "an attempt of this call invoked another call's operation", {"call": cid, "attempt": strays[0]["k"], "operation_of_call": strays[0]["wrong_owner"], "entry": ent}))
            continue
        if a.kind == "ok":
            if end["how"] != "return" or end.get("value") != a.obj:
                out.append(V("R1", "call() did not return the successful attempt's own object",
                             {"call": cid, "expected": a.obj, "end": end, "entry": ent}))
            continue
        if a.kind not in ("exc", "res"):
            continue
        if "ABORTED" in inf.holds and (inf.first_true is not None or inf.decision == "A"):
            continue  # C13 / C16
        if not inf.classified:
            if a.kind == "exc" and not getattr(a, "timed_out", False) and end["how"] == "return" and not inf.polls:
                # the final attempt raised, nobody asked to abort, and yet call() came back with a value
                out.append(V("R2", "call() returned a value although the last attempt raised", {"call": cid, "end": end, "entry": ent,
                             "exception": a.obj, "etype": (a.end or {}).get("etype")}))
                continue
            if a.kind == "res" and scn["cfg"].get("result_classifier") and end["how"] == "return" and not inf.polls \
                    and not any(e["ev"] == "RCLASSIFY" for e in inf.post):
                # a value the configured result classifier calls a failure came back as call()'s result, unexamined
                out.append(V("R3", "call() returned a value without consulting the configured result classifier",
                             {"call": cid, "end": end, "entry": ent, "late": (scn.get("place") or {}).get("late")}))
            continue
        if end["how"] != "raise":
            out.append(V("R2" if a.kind == "exc" else "R3", "failed run returned instead of raising", {"call": cid, "end": end, "entry": ent}))
            continue
        exc = end["exc"]
        deferred = inf.decision == "D"
        if a.kind == "exc" and not deferred and getattr(a, "timed_out", False):
            # the attempt was given up by the per-attempt timeout: its "own exception" is the library's TimeoutError
            if exc["type"] != "TimeoutError":
                out.append(V("R2", f"raised {exc['type']} after the final attempt timed out", {"call": cid, "got": exc, "entry": ent}))
            continue
        if a.kind == "exc" and not deferred:
            if exc.get("obj") != a.obj:
                out.append(V("R2", f"raised {exc.get('obj') or exc['type']} instead of the last attempt's exception",
                             {"call": cid, "expected": a.obj, "got": exc, "entry": ent, "history": [(b.kind, b.fclass) for b in cf.attempts]}))
            elif not exc.get("tb_ok"):
                out.append(V("R2", "original traceback lost", {"call": cid, "got": exc, "entry": ent}))
            continue
        ree = exc.get("ree")
        if ree is None:
            out.append(V("R3", f"expected RetryExhaustedError, got {exc['type']}", {"call": cid, "got": exc, "entry": ent, "deferred": deferred, "cause": a.cause}))
            continue
        problems = []
        if ree["stop_reason"] not in inf.holds:
            problems.append(f"stop_reason {ree['stop_reason']} not in holds {sorted(inf.holds)}")
        if deferred and ree["stop_reason"] != "SCHEDULED":
            problems.append("deferred run not SCHEDULED")
        if ree["attempts"] != len(cf.attempts):
            problems.append(f"attempts {ree['attempts']} != invocations {len(cf.attempts)}")
        if ree["last_class"] != a.fclass:
            problems.append(f"last_class {ree['last_class']} != {a.fclass}")
        if a.kind == "res":
            if ree["last_result"] != a.obj:
                problems.append(f"last_result {ree['last_result']} is not the final result {a.obj}")
            if ree["last_exception"] is not None:
                problems.append(f"last_exception {ree['last_exception']} set on a result-caused stop")
        else:
            if ree["last_exception"] != a.obj:
                problems.append(f"last_exception {ree['last_exception']} is not the final exception {a.obj}")
            if ree["last_result"] is not None:
                problems.append(f"last_result {ree['last_result']} set on an exception-caused deferral")
        if deferred:
            if not feq(ree["next_sleep_s"], inf.applied) or ree["next_sleep_s"] is None:
                problems.append(f"next_sleep_s {ree['next_sleep_s']} != applied delay {inf.applied}")
        elif ree["next_sleep_s"] is not None:
            problems.append(f"next_sleep_s {ree['next_sleep_s']} on a non-deferred stop")
        for p in problems:
            out.append(V("R3", p.split(" ")[0] + " wrong in RetryExhaustedError", {"call": cid, "problem": p, "ree": ree, "entry": ent,
                                                                                  "history": [(b.kind, b.fclass) for b in cf.attempts]}))
    return out


def execute(scn):
    return common.execute_retry(scn, oracle)
