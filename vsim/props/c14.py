"""C14 -- the event stream explains every run: retry* then exactly one terminal event.

With circuit_* events split off, for every run of a policy with a retry
component that ends normally:
R1 metric hook, log hook and captured timeline receive the same sequence after
   projection to (event, attempt, sleep_s, class, stop_reason, cause)
R2 shape retry^n . terminal; the i-th retry has attempt = i and sleep_s = the
   applied delay; exactly one terminal event and nothing after it
R3 terminal is `success` iff the run succeeded; otherwise its stop_reason tag
   equals the stop reason delivered to the caller (whether that reason is the
   right one is C03's business), class/err/cause describe the final failure, operation tag
   present iff an operation name was given; abort events carry only
   stop_reason and operation
R4 breaker events: attempt 0, sleep_s 0, `state` tag = the breaker state after
   the transition; circuit_rejected exactly for refused calls
"""
from __future__ import annotations

import random

from .. import gen as G
from ..facts import (BREAKER_EVENTS, TERMINAL_EVENTS, V, analyze, delivered_stop_reason, entry_name, final_failure_candidates, feq,
                     pre_aborted, rejected)
from . import common

ID = "C14"
LEVEL = "exploration"
KNOBS = {"p_metric": 0.9, "p_log": 0.9, "p_decisions": 0.5, "p_handler": 0.5, "p_abort": 0.35, "p_abort_if": 0.7,
         "p_budget": 0.3, "p_generous": 0.5, "p_ok": 0.2, "p_retryable": 0.8, "p_ra": 0.3}
RULE = ("seeded swarm with all three sinks attached (on_metric, on_log, timeline True/supplied), operation set/unset, "
        "policy-level runs with a real breaker so transitions and rejections occur (sequences, and overlapping async calls so "
        "that rejections happen while a probe is in flight), slow sleep handlers; every stop reason, abort point and "
        "handler decision; distinct by trace shape; non-trivial = >=1 failed attempt or breaker event")
COMPONENTS = common.REAL_COMPONENTS
ASSUMPTIONS = ["runs ending abnormally (cancellation, raising callbacks, nested errors) are outside the statement and not generated",
               "the attempt number carried by terminal events is not constrained by the statement", "sampling, not proof"]
BUDGETS = {"quick": (60000, 90), "thorough": (3000000, 285)}


def gen(seed, tier="quick"):
    scn = G.gen_retry(seed, KNOBS)
    r = random.Random(seed ^ 0xC14)
    if r.random() < 0.05:
        # the handler answers with the plain strings "defer" / "abort": a library that refuses them ends the run
        # abnormally (outside this statement); one that accepts them must still emit a single terminal event
        for c in scn["calls"]:
            if c.get("decisions"):
                c["decisions"][-1] = r.choice(["d", "a"])
    if scn["place"]["handler"] != "none" and r.random() < 0.35:
        # a slow sleep handler: time passes between the retry decision (and its `retry` event) and the sleep
        for c in scn["calls"]:
            c["handler_dur"] = [r.choice([0, 1000, 250_000, 500_000, 2_000_000]) for _ in range(r.randint(1, 3))]
    if scn["entry"] in ("Policy", "Policy.context") and r.random() < 0.7:
        scn["cfg"]["breaker"] = {"kind": "real", "failure_threshold": r.choice([1, 1, 2, 3]), "window_us": 60_000_000,
                                 "recovery_us": r.choice([1_000_000, 30_000_000]),
                                 "trip_on": r.choice([None, ["TRANSIENT", "SERVER_ERROR", "UNKNOWN", "RATE_LIMIT", "CONCURRENCY"]])}
        if len(scn["calls"]) == 1 and r.random() < 0.7:
            # several calls so the breaker opens, rejects, half-opens, closes
            extra = [G.gen_call(r, scn["cfg"], KNOBS) for _ in range(r.randint(1, 4))]
            for c in extra:
                c["before"] = [["adv", r.choice([0, 1000, 1_000_000, 30_000_000, 31_000_000])]]
                if not scn["hooks"]["abort_if"]:
                    c["abort_at"] = None
                if scn["place"]["handler"] == "none":
                    c["decisions"] = []
            scn["calls"].extend(extra)
        if scn["mode"] == "async" and len(scn["calls"]) > 1 and r.random() < 0.5:
            # overlapping calls on one breaker: rejections while another call's half-open probe is still in flight
            scn["concurrent"] = True
            for c in scn["calls"]:
                c.pop("before", None)
                c["start_us"] = r.choice([0, 0, 1000, 250_000, 1_000_000])
                for st in c["attempts"]:
                    if st.get("dur", 0) == 0:
                        st["dur"] = r.choice([0, 1000, 250_000, 1_000_000])
            if r.random() < 0.6:
                br = scn["cfg"]["breaker"]
                scn["pre"] = (scn.get("pre") or []) + [["fail", "TRANSIENT"]] * br["failure_threshold"] + [["adv", br["recovery_us"]]]
    return scn


def _proj_metric(e):
    t = e["tags"]
    return (e["event"], e["attempt"], e["sleep_s"], t.get("class"), t.get("stop_reason"), t.get("cause"))


def _proj_log(e):
    f = e["fields"]
    return (e["event"], f.get("attempt"), f.get("sleep_s"), f.get("class"), f.get("stop_reason"), f.get("cause"))


def _proj_tl(e):
    return (e["event"], e["attempt"], e["sleep_s"], e["cls"], e["stop_reason"], e["cause"])


def oracle(scn, trace):
    out = []
    ent = entry_name(scn)
    hooks = scn.get("hooks") or {}
    opname = hooks.get("operation")
    if scn["entry"] == "decorator" and not opname:
        opname = "op_async" if scn["mode"] == "async" else "op_sync"  # documented: defaults to the function's __name__
    for cid, (cf, infos) in analyze(scn, trace).items():
        end = cf.end
        if end is None:
            continue
        if any(e["ev"] == "HANDLER" and e["decision"] in ("d", "a") for e in cf.events) and end["how"] == "raise" \
                and end["exc"]["type"] not in ("RetryExhaustedError", "AbortRetryError"):
            continue     # the plain-string answer was refused: the run did not end normally
        metrics = [e for e in cf.events if e["ev"] == "METRIC"]
        logs = [e for e in cf.events if e["ev"] == "LOG"]
        m_main = [e for e in metrics if e["event"] not in BREAKER_EVENTS]
        l_main = [e for e in logs if e["event"] not in BREAKER_EVENTS]
        m_br = [e for e in metrics if e["event"] in BREAKER_EVENTS]
        l_br = [e for e in logs if e["event"] in BREAKER_EVENTS]
        streams = {}
        if hooks.get("on_metric"):
            streams["metric"] = [_proj_metric(e) for e in m_main]
        if hooks.get("on_log"):
            streams["log"] = [_proj_log(e) for e in l_main]
        if end["how"] == "outcome" and end["out"].get("timeline") is not None:
            streams["timeline"] = [_proj_tl(e) for e in end["out"]["timeline"]]
        names = sorted(streams)
        # ---- R1 parity
        for i in range(1, len(names)):
            if streams[names[0]] != streams[names[i]]:
                out.append(V("R1", f"{names[0]} and {names[i]} sinks disagree", {"call": cid, names[0]: streams[names[0]], names[i]: streams[names[i]], "entry": ent}))
        # ---- R4 breaker events
        was_rejected = rejected(cf)
        br_calls = [e for e in cf.events if e["ev"] == "BREAKER"]
        expected_br = []
        for b in br_calls:
            evn = b.get("bev") if b["m"] == "allow" else b.get("ret")
            if evn:
                expected_br.append((evn, b["state"]))
        for name, lst in (("metric", m_br), ("log", l_br)):
            if not hooks.get("on_" + name):
                continue
            got = []
            for e in lst:
                tags = e["tags"] if name == "metric" else e["fields"]
                att = e["attempt"] if name == "metric" else tags.get("attempt")
                sl = e["sleep_s"] if name == "metric" else tags.get("sleep_s")
                if att != 0 or sl != 0:
                    out.append(V("R4", "breaker event with attempt/sleep_s != 0", {"call": cid, "event": e, "entry": ent}))
                if (tags.get("operation") is not None) != bool(opname) or (opname and tags.get("operation") != opname):
                    out.append(V("R4", "breaker event operation tag wrong", {"call": cid, "event": e, "entry": ent}))
                got.append((e["event"], tags.get("state")))
            if got != expected_br:
                out.append(V("R4", f"breaker {name} events do not match the breaker's transitions", {"call": cid, "got": got, "expected": expected_br, "entry": ent}))
        if scn["entry"] == "Policy.noretry":
            continue
        if was_rejected:
            for name in names:
                if streams[name]:
                    out.append(V("R4", "retry-loop events emitted for a rejected call", {"call": cid, "events": streams[name], "entry": ent}))
            continue
        if not names:
            continue
        seq = streams[names[0]]
        # ---- R2 shape
        retries = [e for e in seq if e[0] == "retry"]
        terms = [e for e in seq if e[0] in TERMINAL_EVENTS]
        other = [e for e in seq if e[0] != "retry" and e[0] not in TERMINAL_EVENTS]
        if other:
            out.append(V("R2", "unknown event in stream", {"call": cid, "events": other, "entry": ent}))
        if len(terms) != 1:
            out.append(V("R2", f"{len(terms)} terminal events (expected exactly one)", {"call": cid, "stream": seq, "entry": ent}))
            continue
        if seq[-1] is not terms[0] and seq[-1] != terms[0] or seq.index(terms[0]) != len(seq) - 1:
            out.append(V("R2", "event after the terminal event", {"call": cid, "stream": seq, "entry": ent}))
        for i, e in enumerate(retries, 1):
            if e[1] != i:
                out.append(V("R2", "i-th retry event does not carry attempt=i", {"call": cid, "i": i, "event": e, "entry": ent}))
        granted = [inf for inf in infos if inf.n_retry]
        for e, inf in zip(retries, granted):
            # "the delay applied" = what the sleep handler / before_sleep / sleeper were given (whether that value is
            # the right one is C05's business)
            wit = [x["delay"] for x in inf.sleeps] + [x["sleep_s"] for x in inf.handlers] + [x["sleep_s"] for x in inf.before]
            if wit and not feq(e[2], wit[0]):
                out.append(V("R2", "retry event sleep_s is not the applied delay", {"call": cid, "event": e, "applied": wit[0], "entry": ent}))
            if e[3] != inf.a.fclass or e[5] != inf.a.cause:
                out.append(V("R2", "retry event class/cause do not describe the failed attempt", {"call": cid, "event": e, "class": inf.a.fclass, "cause": inf.a.cause, "entry": ent}))
        # ---- R3 terminal
        term = terms[0]
        last = infos[-1] if infos else None
        succeeded = last is not None and last.a.kind == "ok"
        if succeeded != (term[0] == "success"):
            out.append(V("R3", "terminal event is `success` iff the run succeeded -- violated", {"call": cid, "terminal": term, "entry": ent}))
            continue
        if succeeded:
            continue
        delivered, src = delivered_stop_reason(cf)
        holds = set(last.holds) if last is not None else set()
        if pre_aborted(cf) or (last is not None and last.a.kind == "abort") or \
                (last is not None and not last.recorded and last.first_true is not None):
            holds.add("ABORTED")
        if delivered is None and cf.end["how"] == "outcome":
            src = "outcome"
        if (delivered is not None or src == "outcome") and term[4] != delivered:
            out.append(V("R3", "terminal stop_reason tag differs from the delivered stop reason", {"call": cid, "tag": term[4], "delivered": delivered, "entry": ent}))
        # tags of the terminal event (taken from the raw metric/log event)
        raw = None
        for src_list, key in ((m_main, "tags"), (l_main, "fields")):
            for e in src_list:
                if e["event"] == term[0] and e["event"] in TERMINAL_EVENTS:
                    raw = e[key]
            if raw is not None:
                break
        if raw is not None:
            if bool(opname) != ("operation" in raw) or (opname and raw.get("operation") != opname):
                out.append(V("R3", "operation tag wrong on terminal event", {"call": cid, "tags": raw, "operation": opname, "entry": ent}))
            if term[4] == "ABORTED":
                extra = sorted(k for k in raw if k not in ("stop_reason", "operation", "attempt", "sleep_s"))
                if extra:
                    out.append(V("R3", "abort event carries failure tags", {"call": cid, "tags": raw, "entry": ent}))
            else:
                def tag_problem(fin):
                    if fin is None:
                        return None   # nothing to compare (no recorded failure); abort events are handled above
                    a = fin.a
                    want_err = a.end.get("etype", "SimError") if a.cause == "exception" else None
                    if (a.fclass is not None and raw.get("class") != a.fclass) or raw.get("cause") != a.cause or raw.get("err") != want_err:
                        return {"class": a.fclass, "cause": a.cause, "err": want_err}
                    return None

                probs = [tag_problem(c) for c in final_failure_candidates(infos)]
                if all(p is not None for p in probs):
                    out.append(V("R3", "terminal tags do not describe the final failure", {"call": cid, "tags": raw, "expected": probs[0], "entry": ent}))
    return out


def _probes(scn, trace, probes):
    for e in trace:
        if e["ev"] == "METRIC" and e["event"] in BREAKER_EVENTS:
            probes["breaker_event_" + e["event"]] = probes.get("breaker_event_" + e["event"], 0) + 1


def execute(scn):
    return common.execute_retry(scn, oracle, probes_fn=_probes)
