"""C05 -- backoff delay = the failure class's strategy output, sanitised and capped.

Per failed attempt k:
R1 the strategy is called at most once; exactly once if a retry is granted
R2 the strategy consulted is table[K_k] if registered, else the default
R3 its arguments: attempt = k; classification = what the classifier returned
   (field-equal to the Classification it returned, incl. retry_after_s);
   prev_sleep_s = previously *applied* delay (None before the first);
   remaining_s = (deadline - elapsed)/1e6 exactly; cause.  Legacy strategies
   get (k, K_k, prev).
R4 applied delay = min(max(0, raw if finite else 0), remaining) and that one
   number is what the handler, before_sleep, the sleeper, the `retry` metric and
   log and next_sleep_s carry.
"""
from __future__ import annotations

from .. import gen as G
from ..facts import V, analyze, entry_name, feq
from . import common

ID = "C05"
LEVEL = "exploration"
KNOBS = {"p_slow_handler": 0.3, "p_sized_strategy": 0.15, "p_attempt_timeout": 0.2, "p_hostile": 0.35, "p_default": 0.7, "p_ra": 0.4, "p_budget": 0.25, "p_generous": 0.5, "p_retryable": 0.92,
         "p_handler": 0.5, "p_before_sleep": 0.6, "p_decisions": 0.35, "p_abort": 0.05, "p_ok": 0.08, "p_per_class": 0.2,
         "p_metric": 0.8, "p_log": 0.8}
RULE = ("seeded swarm: strategy tables with present/absent entries, context-style and legacy signatures mixed, classifier "
        "returning ErrorClass or Classification(retry_after_s), raw strategy returns from {grid, 0, > remaining, NaN, "
        "+/-inf, negative}; 2-3 overlapping async calls on one policy object; distinct by trace shape; non-trivial = >=1 failed attempt")
COMPONENTS = common.REAL_COMPONENTS
ASSUMPTIONS = ["callbacks take zero virtual time so remaining_s is evaluated at the failure instant", "a sleeper may return late or early (never negative time)", "sampling, not proof"]
BUDGETS = {"quick": (60000, 90), "thorough": (2800000, 285)}


def gen(seed, tier="quick"):
    import random
    scn = G.gen_retry(seed, KNOBS)
    r = random.Random(seed ^ 0xC05)
    if r.random() < 0.3:
        # an early-returning sleeper (instant, or a fraction of the request): after a delay that was capped at the
        # remaining time the deadline is then NOT used up, another retry is granted and the strategy is told the
        # previously *applied* delay -- with an honest sleeper a capped sleep always ends the run
        for c in scn["calls"]:
            c["overshoot"] = [r.choice([-10**13, -10**13, -1, -250_000, 0]) for _ in range(r.randint(1, 3))]
    if scn["mode"] == "async" and len(scn["calls"]) > 1 and scn["entry"] != "decorator" and r.random() < 0.5:
        # overlapping calls on ONE policy object: the previously applied delay, the remaining time and the strategy
        # arguments are per call -- state parked on the shared policy object only shows when calls interleave
        scn["concurrent"] = True
        for c in scn["calls"]:
            c.pop("before", None)
            c["start_us"] = r.choice([0, 0, 1000, 250_000, 600_000])
            for st in c["attempts"]:
                if st.get("dur", 0) == 0:
                    st["dur"] = r.choice([0, 1000, 250_000, 500_000])
    return scn


def _eq(a, b):
    return feq(a, b)


def oracle(scn, trace):
    out = []
    cfg = scn["cfg"]
    ent = entry_name(scn)
    table = cfg.get("table") or {}
    for cid, (cf, infos) in analyze(scn, trace).items():
        prev_applied = None
        for inf in infos:
            a = inf.a
            if a.kind not in ("exc", "res"):
                continue
            ss = inf.strategies
            if len(ss) > 1:
                out.append(V("R1", "strategy called more than once for one failed attempt", {"call": cid, "attempt": a.k, "n": len(ss), "entry": ent}))
            if inf.retry_granted and not ss:
                out.append(V("R1", "retry granted without consulting a strategy", {"call": cid, "attempt": a.k, "entry": ent}))
            if not ss or not inf.classified:
                continue
            s = ss[0]
            K = a.fclass
            want = K if K in table else "default"
            if s["which"] != want:
                out.append(V("R2", "wrong strategy consulted", {"call": cid, "attempt": a.k, "class": K, "consulted": s["which"], "expected": want, "entry": ent}))
            # R3 arguments
            probs = []
            if s["attempt"] != a.k:
                probs.append(("attempt", s["attempt"], a.k))
            if s["cls"] != K:
                probs.append(("class", s["cls"], K))
            if not _eq(s["prev"], prev_applied):
                probs.append(("prev_sleep_s", s["prev"], prev_applied))
            if s["style"] == "ctx":
                if not feq(s["remaining"], inf.remaining_s):
                    probs.append(("remaining_s", s["remaining"], inf.remaining_s))
                if s["cause"] != a.cause:
                    probs.append(("cause", s["cause"], a.cause))
                ra = a.end.get("ra")
                want_ra = None if ra is None else ra / 1e6
                if not feq(s["ra"], want_ra):
                    probs.append(("retry_after_s", s["ra"], want_ra))
                if s["same_cls_obj"] is False:
                    probs.append(("classification", "fields differ", "the classifier's own Classification (klass, retry_after_s, details)"))
            for name, got, exp in probs:
                out.append(V("R3", f"strategy received wrong {name}", {"call": cid, "attempt": a.k, "got": got, "expected": exp, "style": s["style"], "entry": ent}))
            # R4 applied delay
            exp = inf.expected_delay
            witnesses = [("sleeper", e["delay"]) for e in inf.sleeps] + [("sleep_handler", e["sleep_s"]) for e in inf.handlers] \
                + [("before_sleep", e["sleep_s"]) for e in inf.before] + [("retry_metric", e["sleep_s"]) for e in inf.retry_metrics] \
                + [("retry_log", e["fields"].get("sleep_s")) for e in inf.retry_logs]
            if inf.decision == "D" and cf.end is not None:
                if cf.end["how"] == "outcome":
                    witnesses.append(("next_sleep_s", cf.end["out"]["next_sleep_s"]))
                elif cf.end["how"] == "raise" and "ree" in cf.end["exc"]:
                    witnesses.append(("next_sleep_s", cf.end["exc"]["ree"]["next_sleep_s"]))
            for name, got in witnesses:
                if not _eq(got, exp):
                    out.append(V("R4", f"{name} carries a delay different from the sanitised strategy output",
                                 {"call": cid, "attempt": a.k, "raw": s["raw"], "remaining_s": inf.remaining_s, "expected": exp, "got": got, "entry": ent}))
            if inf.retry_granted and inf.applied is not None:
                prev_applied = inf.applied if not isinstance(inf.applied, str) else inf.applied
    return out


def _probes(scn, trace, probes):
    for e in trace:
        if e["ev"] == "STRATEGY":
            if isinstance(e["raw"], str):
                probes["non_finite_strategy_value"] = probes.get("non_finite_strategy_value", 0) + 1
            elif e["raw"] < 0:
                probes["negative_strategy_value"] = probes.get("negative_strategy_value", 0) + 1
            elif e["remaining"] is not None and e["raw"] > e["remaining"]:
                probes["value_beyond_remaining"] = probes.get("value_beyond_remaining", 0) + 1
            if e["which"] != "default":
                probes["per_class_strategy_used"] = probes.get("per_class_strategy_used", 0) + 1
            if e["ra"] is not None:
                probes["retry_after_in_context"] = probes.get("retry_after_in_context", 0) + 1


def execute(scn):
    return common.execute_retry(scn, oracle, probes_fn=_probes)
