"""Generators and refinement checkers shared by C06 / C07 (and C08/C09 scenarios)."""
from __future__ import annotations

import random

from .. import gen as G
from ..facts import V
from ..models import RefBreaker

U = 125_000  # dyadic grid unit: 1/8 s, float-exact after /1e6
COUNTABLE = ["TRANSIENT", "SERVER_ERROR", "RATE_LIMIT", "CONCURRENCY", "UNKNOWN", "PERMANENT", "AUTH"]


def gen_breaker_cfg(r: random.Random) -> dict:
    w = r.choice([1, 2, 4, 8, 16, 80]) * U
    R = r.choice([1, 2, 4, 8, 16, 240]) * U
    cfg = {"F": r.choice([1, 2, 2, 3, 3, 4]), "window_us": w, "recovery_us": R}
    x = r.random()
    if x < 0.35:
        cfg["trip_on"] = None
    elif x < 0.45:
        cfg["trip_on"] = []
    else:
        cfg["trip_on"] = sorted(r.sample(COUNTABLE, r.randint(1, 4)))
    ct = {}
    if r.random() < 0.5:
        for c in r.sample(COUNTABLE, r.randint(1, 2)):
            ct[c] = r.choice([1, 2, 2, 3])
    cfg["class_thresholds"] = ct
    return cfg


def maybe_sibling(r: random.Random, cfg: dict):
    """sometimes a second breaker is configured from the very same trip_on set object"""
    if r.random() < 0.2:
        mine = cfg["trip_on"] if cfg.get("trip_on") is not None else ["TRANSIENT", "SERVER_ERROR"]
        others = [c for c in COUNTABLE if c not in mine and c not in cfg["class_thresholds"]]
        if others:
            return {"when": r.choice(["before", "after", "after"]), "class_thresholds": {c: r.choice([1, 2]) for c in r.sample(others, min(len(others), r.randint(1, 2)))}}
    return None


def _adv(r: random.Random, cfg: dict) -> int:
    w, R = cfg["window_us"], cfg["recovery_us"]
    x = r.random()
    if x < 0.25:
        return 0
    if x < 0.5:
        return r.choice([U, 2 * U, 3 * U])
    if x < 0.75:
        return max(0, r.choice([w, w - U, w + U, w // 2]))
    return max(0, r.choice([R, R - U, R + U, R // 2, R + w]))


def gen_breaker_ops(r: random.Random, cfg: dict, n_max: int = 40) -> list:
    classes = sorted(set((cfg.get("trip_on") if cfg.get("trip_on") is not None else ["TRANSIENT", "SERVER_ERROR"])) | set(cfg["class_thresholds"]))
    others = [c for c in COUNTABLE if c not in classes]
    ops = []
    n = r.randint(1, n_max)
    for _ in range(n):
        x = r.random()
        if x < 0.3:
            ops.append(["adv", _adv(r, cfg)])
        elif x < 0.65:
            if classes and r.random() < 0.8:
                ops.append(["fail", r.choice(classes)])
            else:
                ops.append(["fail", r.choice(others or COUNTABLE)])
        elif x < 0.83:
            ops.append(["allow"])
        elif x < 0.93:
            ops.append(["success"])
        else:
            ops.append(["cancel"])
    return ops


def to_policy_breaker_cfg(cfg: dict) -> dict:
    return {"kind": "real", "failure_threshold": cfg["F"], "window_us": cfg["window_us"], "recovery_us": cfg["recovery_us"],
            "trip_on": cfg.get("trip_on"), "class_thresholds": cfg.get("class_thresholds") or {}}


def model_for(bcfg: dict) -> RefBreaker:
    return RefBreaker(bcfg.get("failure_threshold", 5), bcfg.get("window_us", 60_000_000), bcfg.get("recovery_us", 30_000_000),
                      bcfg.get("trip_on"), bcfg.get("class_thresholds"))


def gen_policy_history(seed: int, knobs: dict, modes=("sync",), concurrent=False) -> dict:
    """A sequence (or concurrent set) of short policy calls sharing one real breaker."""
    r = random.Random(seed)
    bc = gen_breaker_cfg(r)
    mode = r.choice(list(modes))
    n_calls = r.randint(2, knobs.get("max_calls", 8))
    max_attempts = r.choice([1, 1, 2, 3])
    cfg = {"max_attempts": max_attempts, "deadline_us": 3_600_000_000, "max_unknown": None, "per_class": {},
           "default": "ctx", "table": {}, "cls_shape": "enum", "result_classifier": r.random() < 0.4,
           "budget": None, "breaker": to_policy_breaker_cfg(bc)}
    classes = sorted(set((bc.get("trip_on") if bc.get("trip_on") is not None else ["TRANSIENT", "SERVER_ERROR"])) | set(bc["class_thresholds"]))
    calls = []
    handler = r.random() < 0.3
    for i in range(n_calls):
        entry = r.choice(["Policy", "Policy", "Policy.noretry", "Policy.context"])
        how = "call" if entry == "Policy.context" else r.choice(["call", "execute"])
        atts = []
        for k in range(max_attempts + 1):
            x = r.random()
            if x < 0.3:
                atts.append({"kind": "ok", "dur": r.choice([0, U, 2 * U])})
            else:
                cls = r.choice(classes) if classes and r.random() < 0.75 else r.choice(COUNTABLE)
                kind = "res" if (cfg["result_classifier"] and entry != "Policy.noretry" and r.random() < 0.3) else "exc"
                atts.append({"kind": kind, "cls": cls, "dur": r.choice([0, U, 2 * U])})
        c = {"entry": entry, "how": how, "attempts": atts, "values": [r.choice([0, U, 2 * U])], "overshoot": [0],
             "decisions": [], "abort_at": None}
        if handler and r.random() < 0.5:
            c["decisions"] = ["S"] * r.randint(0, 1) + [r.choice(["D", "A", "S"])]
        if r.random() < knobs.get("p_abort", 0.12):
            c["abort_at"] = r.randint(0, 3)
        if concurrent:
            c["start_us"] = r.choice([0, 0, U, 2 * U, bc["recovery_us"], bc["recovery_us"] + U, r.randrange(0, 40) * U])
        else:
            c["before"] = [["adv", _adv(r, bc)]]
            if r.random() < 0.15:
                c["before"].append(r.choice([["fail", r.choice(classes or COUNTABLE)], ["allow"], ["success"], ["cancel"]]))
        calls.append(c)
    scn = {"kind": "retry", "grid": U, "seed": seed, "mode": mode, "entry": "Policy", "how": "call", "cfg": cfg,
           "place": {"handler": "call" if handler else "none", "before_sleep": "none", "sleeper": "policy", "att_hooks": "none"},
           "hooks": {"on_metric": r.random() < 0.5, "on_log": False, "operation": None, "timeline": None, "abort_if": True},
           "clock": {"base_us": r.choice([0, 8 * U, 1024 * U])}, "calls": calls}
    if concurrent:
        scn["concurrent"] = True
    pre = []
    if r.random() < 0.6:
        # bring the breaker near/into an interesting state first
        for _ in range(r.randint(1, 4)):
            pre.append(["fail", r.choice(classes or COUNTABLE)])
        pre.append(["adv", _adv(r, bc)])
    scn["pre"] = pre
    return scn


def refine_policy_log(scn: dict, trace: list, owner: str):
    """Replay the breaker's method log (total order) against RefBreaker.

    owner 'C06' reports mismatches of operations performed while the model is
    CLOSED; owner 'C07' those performed while OPEN / HALF_OPEN plus the
    call-level admission rules.  The first mismatch ends the comparison (the
    model has diverged)."""
    out = []
    bcfg = scn["cfg"]["breaker"]
    model = model_for(bcfg)
    outstanding = {}     # call id -> admitted and not yet settled
    refused = set()
    states = set()
    probe_owner = None   # call admitted as the half-open probe, result not yet recorded
    released_by_stray = None
    probe_calls = {}     # call admitted as half-open probe -> its own breaker records
    since_close = False
    stray = []           # records made by calls that were never admitted / already settled
    for e in trace:
        ev = e["ev"]
        cid = e.get("call")
        if ev == "OP_BEGIN" and owner == "C07":
            if cid in refused:
                out.append(V("R2", "operation invoked although the breaker refused the call", {"call": cid, "t": e["t"]}))
            continue
        if ev == "CALL_END":
            if owner == "C07" and cid in probe_calls:
                # "a successful probe closes the circuit ...; a failed probe re-opens it with a fresh timeout"
                recs = probe_calls.pop(cid)
                cancelled = (e["how"] == "raise" and e["exc"]["type"] in ("AbortRetryError", "KeyboardInterrupt", "SystemExit", "CancelledError", "GeneratorExit")) or \
                            (e["how"] == "outcome" and e["out"]["stop_reason"] == "ABORTED")
                succeeded = e["how"] == "return" or (e["how"] == "outcome" and e["out"]["ok"])
                if not cancelled and recs:
                    last = recs[-1]
                    if succeeded and (last["m"] != "record_success" or last["state"] != "closed") and last["before"] == "half_open":
                        out.append(V("R4", "successful probe did not close the circuit", {"call": cid, "record": last}))
                    if not succeeded and last["before"] == "half_open" and (last["m"] != "record_failure" or last["state"] != "open"):
                        out.append(V("R4", "failed probe did not re-open the circuit", {"call": cid, "record": {k: last[k] for k in ("m", "state", "before", "t")},
                                                                                       "ending": e["exc"]["type"] if e["how"] == "raise" else e["out"]["stop_reason"]}))
            if probe_owner == cid:
                probe_owner = None
            if owner == "C07" and cid in refused:
                ok = (e["how"] == "raise" and e["exc"]["type"] == "CircuitOpenError") or \
                     (e["how"] == "outcome" and not e["out"]["ok"] and e["out"]["attempts"] == 0 and e["out"]["last_exception_type"] == "CircuitOpenError")
                if not ok:
                    out.append(V("R2", "refused call did not fail fast with CircuitOpenError / attempts=0", {"call": cid, "end": e}))
            continue
        if ev != "BREAKER":
            continue
        now = e["t"]
        before = model.state
        m = e["m"]
        if m == "allow":
            adm, mev = model.allow(now)
            exp = {"ret": adm, "bev": mev, "state": model.state}
            got = {"ret": e["ret"], "bev": e.get("bev"), "state": e["state"]}
            if cid is not None:
                if e["ret"]:
                    outstanding[cid] = True
                    if e["state"] == "half_open":
                        probe_calls[cid] = []
                        if owner == "C07" and probe_owner is not None and probe_owner != cid and released_by_stray is not None:
                            out.append(V("R3", "second probe admitted while the first probe call is still in flight",
                                         {"first_probe_call": probe_owner, "second_probe_call": cid, "t": now,
                                          "slot_released_by": released_by_stray}))
                        probe_owner = cid
                        released_by_stray = None
                else:
                    refused.add(cid)
        elif m == "record_success":
            exp = {"ret": model.record_success(now), "state": model.state}
            got = {"ret": e["ret"], "state": e["state"]}
        elif m == "record_failure":
            exp = {"ret": model.record_failure(now, e["cls"]), "state": model.state}
            got = {"ret": e["ret"], "state": e["state"]}
        else:
            exp = {"ret": model.record_cancel(now), "state": model.state}
            got = {"ret": e["ret"], "state": e["state"]}
        states.add((before, m, model.state, model.probe))
        if m != "allow" and cid in probe_calls:
            probe_calls[cid].append({"m": m, "state": e["state"], "before": before, "t": now})
        if m != "allow":
            if cid is None or cid == probe_owner:
                probe_owner = None
                released_by_stray = None
            elif probe_owner is not None and before == "half_open":
                # somebody else's record reached the breaker while the probe is in flight.
                # A call admitted earlier (e.g. while CLOSED) reporting its own result is
                # indistinguishable for the breaker (no per-call token) and tolerated; a
                # record from a call that was never admitted / already settled is not.
                if outstanding.get(cid):
                    released_by_stray = None
                    probe_owner = None
                else:
                    released_by_stray = {"call": cid, "method": m, "t": now}
            if cid is not None:
                if owner == "C07" and cid in refused and m == "record_failure":
                    out.append(V("R2", "a rejection was counted as a failure", {"call": cid, "method": m}))
                if not outstanding.get(cid):
                    stray.append({"call": cid, "method": m, "t": now, "model_state": before})
                outstanding[cid] = False
        if exp.get("ret") == "circuit_closed":
            since_close = True
        elif exp.get("ret") == "circuit_opened":
            since_close = False
        if exp != got:
            closed_side = before == "closed"
            if owner == "C07" and closed_side and since_close and m == "record_failure":
                out.append(V("R4", "failure after a successful probe: history was not empty after closing",
                             {"call": cid, "t": now, "expected": exp, "got": got, "breaker_cfg": bcfg}))
            elif (owner == "C06") == closed_side:
                if owner == "C06":
                    rule = "R2" if m == "record_failure" else "R1"
                    sig = f"{m} while closed: breaker and model disagree"
                else:
                    rule = "R1" if m == "allow" else "R4"
                    sig = f"{m} while {before}: breaker and model disagree"
                out.append(V(rule, sig, {"call": cid, "t": now, "method": m, "cls": e.get("cls"), "expected": exp, "got": got, "breaker_cfg": bcfg}))
            break
    return out, states
