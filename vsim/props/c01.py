"""C01 -- attempt caps (global, per-class, UNKNOWN, non-retryable) are never exceeded.

R1 invocations <= max_attempts (0 when max_attempts <= 0)
R2 no invocation after a failure classified PERMANENT / AUTH / PERMISSION
R3 for every class K with a limit L: #(failures of K followed by another attempt) <= L
R4 #(UNKNOWN failures followed by another attempt) <= max_unknown_attempts
R5 no carry-over: call j on a reused policy object behaves exactly like the
   same script on a fresh policy object (differential run; scenarios with a
   shared budget are excluded from this rule -- the budget is meant to be shared)
Upper bounds only; premature stops are C03's business.
"""
from __future__ import annotations

import copy
import random

from .. import gen as G
from ..drive import run_retry_scenario
from ..facts import NON_RETRYABLE, V, entry_name, split_calls
from ..runner import chooser_for
from . import common

ID = "C01"
LEVEL = "exploration"
KNOBS = {"p_long": 0.06, "p_firing_timeout": 0.12, "p_zero_attempts": 0.04, "p_per_class": 0.7, "p_single_call": 0.45, "max_calls": 4, "p_budget": 0.2,
         "p_generous": 0.7, "p_ok": 0.1, "p_retryable": 0.8, "p_abort": 0.1, "p_decisions": 0.2, "p_hostile": 0.05}
RULE = ("seeded swarm: max_attempts 0..8 (6 %: 12..48 with caps up to 30), per-class limits 0..3 on 0-3 classes, UNKNOWN cap None/0..3, strategy tables "
        "with holes, optional budget, outcome scripts mixing all 8 classes and both causes, 1-4 calls on one policy "
        "object, every entry point sync+async; distinct by trace shape; non-trivial = >=1 failed attempt")
COMPONENTS = common.REAL_COMPONENTS
ASSUMPTIONS = ["the classifier's answer (observed at the seam) is the failure's class", "sampling, not proof"]
BUDGETS = {"quick": (60000, 90), "thorough": (2200000, 285)}


def gen(seed, tier="quick"):
    scn = G.gen_retry(seed, KNOBS)
    r = random.Random(seed ^ 0xC01)
    if len(scn["calls"]) > 1 and scn["entry"] != "decorator" and r.random() < 0.4:
        # caps are changed on the live policy object between calls (attribute assignment or in-place edit)
        for c in scn["calls"][1:]:
            if r.random() < 0.7:
                patch = {}
                if r.random() < 0.6:
                    patch["max_unknown"] = r.choice([None, 0, 1, 2])
                if r.random() < 0.6:
                    patch["per_class"] = {k: r.choice([0, 1, 2]) for k in r.sample(G.CLASSES, r.randint(0, 2))}
                if patch:
                    c["before"] = (c.get("before") or []) + [["reconfigure", patch, r.choice(["assign", "in_place"])]]
    elif scn["mode"] == "async" and len(scn["calls"]) > 1 and r.random() < 0.5:
        # overlapping calls on ONE policy object: each call's caps must hold on their own
        scn["concurrent"] = True
        for c in scn["calls"]:
            c.pop("before", None)
            c["start_us"] = r.choice([0, 0, 1000, 500_000])
            for st in c["attempts"]:
                if st.get("dur", 0) == 0:
                    st["dur"] = r.choice([0, 1000, 250_000])
    return scn


def _norm_call(cf):
    """what a carried-over counter could change: which attempts were made, how each failure was
    classified, which were retried, and how the call ended"""
    out = [(a.k, a.kind, a.fclass) for a in cf.attempts]
    end = cf.end
    if end is None:
        fin = None
    elif end["how"] == "raise":
        fin = ("raise", end["exc"]["type"], (end["exc"].get("ree") or {}).get("stop_reason"))
    elif end["how"] == "outcome":
        fin = ("outcome", end["out"]["ok"], end["out"]["stop_reason"], end["out"]["attempts"])
    else:
        fin = ("return",)
    return out + [fin]


def oracle(scn, trace):
    out = []
    cfg = scn["cfg"]
    ent = entry_name(scn)
    calls = split_calls(trace)
    M = max(cfg["max_attempts"], 0)
    eff = dict(cfg)
    for cid in sorted(calls):
        cf = calls[cid]
        # caps in force for this call (the caller may have reconfigured the live policy object)
        script = scn["calls"][cid - scn.get("cid_base", 0)] if 0 <= cid - scn.get("cid_base", 0) < len(scn["calls"]) else {}
        for op in script.get("before") or []:
            if op[0] == "reconfigure":
                eff = dict(eff)
                if "max_unknown" in op[1]:
                    eff["max_unknown"] = op[1]["max_unknown"]
                if "per_class" in op[1]:
                    eff["per_class"] = dict(op[1]["per_class"])
        cfg = eff
        n = len(cf.attempts)
        if n > M:
            out.append(V("R1", "more invocations than max_attempts", {"call": cid, "invocations": n, "max_attempts": cfg["max_attempts"], "entry": ent}))
        follow = {}
        for i, a in enumerate(cf.attempts):
            if a.kind not in ("exc", "res"):
                continue
            has_next = i + 1 < n
            K = a.fclass
            if K is None and has_next and a.kind == "exc" and a.cls and not getattr(a, "timed_out", False) \
                    and not any(e["ev"] == "POLL" and e["ans"] for e in a.post()):
                # the failure was followed by another attempt without ever being shown to the classifier (e.g. a verdict
                # remembered from the last time this exception object was seen): what counts is what the classifier
                # says about it now, i.e. the scripted class
                K = a.cls
            if K is None:
                continue
            if has_next and K in NON_RETRYABLE:
                out.append(V("R2", "attempt after a non-retryable failure", {"call": cid, "attempt": a.k, "class": K, "entry": ent}))
            if has_next:
                follow[K] = follow.get(K, 0) + 1
        for K, L in (cfg.get("per_class") or {}).items():
            if follow.get(K, 0) > L:
                out.append(V("R3", "retries after class exceed per_class_max_attempts", {"call": cid, "class": K, "limit": L, "retries": follow[K], "entry": ent}))
        U = cfg.get("max_unknown")
        if U is not None and follow.get("UNKNOWN", 0) > U:
            out.append(V("R4", "retries after UNKNOWN exceed max_unknown_attempts", {"call": cid, "limit": U, "retries": follow["UNKNOWN"], "entry": ent}))
    return out, calls


def execute(scn):
    holder = {}

    def orc(s, trace):
        v, calls = oracle(s, trace)
        holder["calls"] = calls
        return v

    res = common.execute_retry(scn, orc)
    # R5 differential: only without shared budget/breaker state
    reconf = any(op[0] == "reconfigure" for c in scn["calls"] for op in (c.get("before") or []))
    if len(scn["calls"]) > 1 and not scn["cfg"].get("budget") and not scn["cfg"].get("breaker") and not scn.get("concurrent") and not reconf:
        calls = holder["calls"]
        for j in range(1, len(scn["calls"])):
            if j not in calls or calls[j].begin is None:
                continue
            fresh = copy.deepcopy(scn)
            fresh["calls"] = [dict(scn["calls"][j], before=None)]
            fresh["cid_base"] = j
            # same absolute instant as in the reused run, so timing (deadline) decisions are identical
            fresh["pre"] = None
            fresh["clock"] = dict(scn.get("clock") or {}, base_us=(scn.get("clock") or {}).get("base_us", 0) + calls[j].t0)
            fresh.pop("schedule", None)
            env2, _ = run_retry_scenario(fresh, chooser=chooser_for(fresh) if fresh["mode"] == "async" else None)
            c2 = split_calls(env2.trace).get(j)
            res["runs"] += 1
            if c2 is None or _norm_call(calls[j]) != _norm_call(c2):
                a = _norm_call(calls[j])
                b = _norm_call(c2) if c2 else []
                k = next((i for i, (x, y) in enumerate(zip(a, b)) if x != y), min(len(a), len(b)))
                res["violations"].append(V("R5", "call on a reused policy differs from the same call on a fresh policy",
                                           {"call": j, "entry": entry_name(scn), "first_diff_index": k,
                                            "reused": a[k] if k < len(a) else None, "fresh": b[k] if k < len(b) else None}))
                break
    return res
