"""C10 -- shared retry budget: at most max_retries retries per rolling window.

(a) component histories consume(cost 1..3) / remaining() / advance(dt) / cap re-tuned on a real
    Budget on the simulated clock (dyadic grid, advances biased to window_s
    exactly and +-1/8 s), refined step by step against RefBudget
(b) 2..4 policy objects (sync sequence, or async concurrently running) sharing
    one real Budget, all failing with virtual backoff
R1 every consume() return value and every remaining() value equals the model's
R2 sliding-window bound over the grant log: for every grant instant t the
   number of grants in (t - window, t] is <= max_retries
R3 policy level: every `retry` pairs with one granted token, every
   budget_exhausted stop with a refusal that the model also makes (the window
   really is full), and capacity returns exactly when old grants age out
Windows are half-open: a grant aged exactly window_s no longer counts.
"""
from __future__ import annotations

import random

from .. import gen as G
from ..component import run_budget_history
from ..drive import run_retry_scenario
from ..facts import V, analyze
from ..models import RefBudget
from ..runner import chooser_for, digest
from . import common

ID = "C10"
LEVEL = "exploration"
U = 125_000
RULE = ("seeded histories on a dyadic time grid: 60% component level (1..40 ops incl. re-tuning max_retries, budgets 0..9, windows 1/8..10 s), 40% "
        "policy level (2-4 calls on distinct entry points sharing one Budget, sync sequence or async concurrent); distinct "
        "by (config, op/trace shape) hash; non-trivial = at least one refusal or one grant ageing out")
COMPONENTS = {"real": ["redress.budget.Budget", "policy level: redress.policy.* retry loop (state._handle_failure budget gate)"],
              "stub": ["clock (SimClock/TimeShim)", "event loop (SimLoop)", "operation/classifier/strategy/sleeper (scripted)", "RefBudget is the oracle"]}
ASSUMPTIONS = ["rolling window is half-open (a grant aged exactly window_s is out): the only reading under which both halves of C10 hold",
               "sampling, not proof"]
INTERLEAVING_MEASURE = "distinct (scenario, ready-order choice sequence) pairs among concurrent async scenarios"
BUDGETS = {"quick": (120000, 90), "thorough": (4000000, 285)}


def gen(seed, tier="quick"):
    r = random.Random(seed)
    if r.random() < 0.6:
        w = r.choice([1, 2, 4, 8, 16, 80]) * U
        cfg = {"max": r.choice([0, 1, 1, 2, 3, 4, 6]), "window_us": w}
        ops = []
        for _ in range(r.randint(1, 40)):
            x = r.random()
            if x < 0.5:
                ops.append(["consume", r.choice([1, 1, 1, 2, 3])])
            elif x < 0.65:
                ops.append(["remaining"])
            elif x > 0.96:
                ops.append(["set_max", r.choice([0, 1, 2, 3, 4, 6, 9])])     # cap re-tuned on the live budget
            else:
                ops.append(["adv", max(0, r.choice([0, U, 2 * U, w, w - U, w + U, w // 2]))])
        return {"kind": "budget_hist", "grid": U, "seed": seed, "cfg": cfg, "ops": ops, "base_us": r.choice([0, 8 * U, 4096 * U])}
    # policy level
    mode = r.choice(["sync", "async"])
    conc = mode == "async" and r.random() < 0.7
    w = r.choice([2, 4, 8, 16]) * U
    cfg = {"max_attempts": r.choice([2, 3, 4, 5]), "deadline_us": r.choice([3_600_000_000, 3_600_000_000, 16 * U, 64 * U]), "max_unknown": None, "per_class": {},
           "default": "ctx", "table": {}, "cls_shape": "enum", "result_classifier": r.random() < 0.3,
           "budget": {"max": r.choice([0, 1, 2, 3, 4]), "window_us": w}, "breaker": None}
    calls = []
    handler = r.random() < 0.25
    aborting = r.random() < 0.25
    for i in range(r.randint(2, 4)):
        entry = r.choice(["Retry", "Policy", "RetryPolicy", "Retry.from_config", "decorator"])
        how = "call" if entry == "decorator" else r.choice(["call", "execute"])
        atts = []
        for k in range(cfg["max_attempts"] + 1):
            if r.random() < 0.12:
                atts.append({"kind": "ok", "dur": r.choice([0, U])})
            else:
                atts.append({"kind": "res" if cfg["result_classifier"] and r.random() < 0.3 else "exc",
                             "cls": r.choice(["TRANSIENT", "SERVER_ERROR", "RATE_LIMIT", "CONCURRENCY"]), "dur": r.choice([0, U, 2 * U])})
        c = {"entry": entry, "how": how, "attempts": atts, "values": [r.choice([0, U, 2 * U, w, w - U, w // 2, 10**10]) for _ in range(3)],
             "overshoot": [0], "decisions": [], "abort_at": None}
        if handler:
            c["decisions"] = ["S"] * r.randint(0, 2) + [r.choice(["D", "S", "S"])]
        if conc:
            c["start_us"] = r.choice([0, 0, U, 2 * U, w])
        else:
            c["before"] = [["adv", r.choice([0, U, w, w - U, w // 2])]]
        if r.random() < 0.15:
            c["ext_consume"] = [r.randrange(0, 3)]      # a consumer outside these policies takes a token mid-decision
        if r.random() < 0.15:
            c["strategy_dur"] = [r.choice([0, U, 2 * U, 4 * U])]      # a slow strategy: time passes between the decision to retry and the grant
        if aborting and r.random() < 0.5:
            c["abort_at"] = r.randint(1, 3 * cfg["max_attempts"])     # abort_if answers True from this poll on
        calls.append(c)
    scn = {"kind": "retry", "grid": U, "seed": seed, "mode": mode, "entry": "Retry", "how": "call", "cfg": cfg,
           "place": {"handler": "policy" if handler else "none", "before_sleep": "none", "sleeper": r.choice(["policy", "none"]), "att_hooks": "none"},
           "hooks": {"on_metric": True, "on_log": False, "operation": "op", "timeline": None, "abort_if": aborting},
           "clock": {"base_us": r.choice([0, 8 * U])}, "calls": calls}
    if conc:
        scn["concurrent"] = True
    if r.random() < 0.25:
        scn["place"]["budget_late"] = True     # policies built without a budget; the shared one is attached afterwards
    return scn


def window_bound(grants, w, mx):
    """grants: sorted instants (one per token), or (instant, cap in force when granted) pairs.
    For each t: #grants in (t-w, t] <= cap."""
    grants = [g if isinstance(g, tuple) else (g, mx) for g in grants]
    lo = 0
    for hi, (t, cap) in enumerate(grants):
        while grants[lo][0] <= t - w:
            lo += 1
        if hi - lo + 1 > cap:
            return t, hi - lo + 1
    return None


def execute(scn):
    viol = []
    probes = {}
    if scn["kind"] == "budget_hist":
        steps, grants, clock = run_budget_history(scn)
        cfg = scn["cfg"]
        for st in steps:
            if st["real"] != st["model"]:
                what = "consume" if st["op"][0] == "consume" else "remaining"
                if what == "consume":
                    sig = "over-grant: consume() granted although the window is full" if st["real"] else "refused although the window is not full"
                else:
                    sig = "remaining() disagrees with the model"
                viol.append(V("R1", sig, {"step": st, "cfg": cfg}))
                break
        wb = window_bound(grants, cfg["window_us"], cfg["max"])
        if wb is not None:
            viol.append(V("R2", "more than max_retries grants inside one window", {"at": wb[0], "count": wb[1], "cfg": cfg}))
        refused = sum(1 for s in steps if s["op"][0] == "consume" and not s["real"])
        if refused:
            probes["refusals"] = refused
        nt = refused > 0 or any(s["op"][0] == "remaining" for s in steps)
        res = {"violations": viol, "shape": (digest(cfg), tuple(tuple(o) for o in scn["ops"])), "nontrivial": nt,
               "faults": {"clock_advance": sum(1 for o in scn["ops"] if o[0] == "adv" and o[1]), "budget_pressure": refused},
               "probes": probes, "sim_us": clock.mono_us - clock.base_us, "digest": digest(steps), "runs": 1}
        if nt:
            res["sample"] = {"scenario": scn, "steps": steps[:30]}
        return res
    env, info = run_retry_scenario(scn, chooser=chooser_for(scn) if scn["mode"] == "async" else None)
    b = scn["cfg"]["budget"]
    model = RefBudget(b["max"], b["window_us"])
    grants = []
    aged = 0
    for e in env.trace:
        if e["ev"] != "BUDGET":
            continue
        before = len(model.stamps)
        exp = model.consume(e["t"], e["cost"])
        if exp and len(model.stamps) - e["cost"] < before:
            aged += 1
        if e["granted"]:
            grants.extend([e["t"]] * e["cost"])
        if exp != e["granted"]:
            sig = "over-grant: consume() granted although the window is full" if e["granted"] else "retry refused (BUDGET_EXHAUSTED) although the window is not full"
            viol.append(V("R3", sig, {"call": e["call"], "t": e["t"], "budget": b}))
            break
    wb = window_bound(sorted(grants), b["window_us"], b["max"])
    if wb is not None:
        viol.append(V("R2", "more than max_retries retries granted inside one window", {"at": wb[0], "count": wb[1], "budget": b}))
    # every retry pairs with its own token; every budget_exhausted with a refusal
    for cid, (cf, infos) in analyze(scn, env.trace).items():
        for inf in infos:
            if inf.n_retry and not inf.granted:
                viol.append(V("R3", "retry granted without a budget token", {"call": cid, "attempt": inf.k}))
            if inf.granted and not inf.n_retry and inf.first_true is None:
                viol.append(V("R3", "budget token taken although no retry was granted (phantom grant: later refusals happen while the window is not full of retries)",
                              {"call": cid, "attempt": inf.k, "holds": sorted(inf.S)}))
            if inf.n_retry and len(inf.granted) > 1:
                viol.append(V("R3", "more than one token taken for one retry", {"call": cid, "attempt": inf.k}))
            exhausted = [e for e in inf.post if e["ev"] == "METRIC" and e["event"] == "budget_exhausted"]
            if exhausted and not inf.refused and "BUDGET_EXHAUSTED" not in inf.holds:
                viol.append(V("R3", "budget_exhausted reported although the window is not full", {"call": cid, "attempt": inf.k}))
    refused = sum(1 for e in env.trace if e["ev"] == "BUDGET" and not e["granted"])
    if refused:
        probes["refusals"] = refused
    if aged:
        probes["token_aged_out_mid_run"] = aged
    if info.get("multi_ready"):
        probes["two_tasks_ready_at_once"] = info["multi_ready"]
    faults = {"budget_pressure": refused, "op_exc": sum(1 for e in env.trace if e["ev"] == "OP_END" and e["kind"] == "exc")}
    if scn.get("concurrent"):
        faults["task_interleave"] = len(info.get("choices") or [])
    nt = refused > 0 or aged > 0
    res = {"violations": viol, "shape": common.shape_of(scn, env.trace, env) + ((tuple(info.get("choices") or ()),) if scn.get("concurrent") else ()),
           "nontrivial": nt, "faults": faults, "probes": probes, "sim_us": info["sim_us"], "digest": digest(env.trace), "runs": 1,
           "schedule": info.get("choices"), "interleaving": (scn.get("seed"), tuple(info.get("choices") or ())) if scn.get("concurrent") else None}
    if nt:
        res["sample"] = common.sample_of(scn, env.trace, 40)
    return res
