"""C07 -- an open breaker fails fast; recovery admits exactly one probe.

(a) component histories (as C06, advances biased to recovery_timeout_s exactly
    and +-1/8 s) refined against RefBreaker; mismatches of operations performed
    while OPEN / HALF_OPEN are reported here
(b) sync sequences of policy calls (with / without retry, call / execute,
    context) with idle time and direct breaker operations in between
(c) async: 2..6 concurrently running AsyncPolicy calls sharing one breaker;
    start offsets, operation durations and the order of ready tasks are chosen
    by the seed
The breaker's method log (single-threaded => totally ordered) is refined against
the model in the order the calls actually happened:
R1 admission decisions agree: rejected until now - opened >= recovery_timeout,
   then exactly one admitted until a record arrives
R2 a refused call performs no operation, fails with CircuitOpenError / a not-ok
   outcome with attempts = 0, and records nothing
R3 exactly one probe: while the call admitted as the half-open probe is still
   in flight no other call is admitted, unless the slot was released by the
   result of another *admitted* call (a call admitted while CLOSED that reports
   during HALF_OPEN is indistinguishable for a breaker without per-call tokens
   and is tolerated); a record issued by a call that was never admitted, or had
   already settled, must not release the slot
R4 records while HALF_OPEN / OPEN: a successful probe closes with an empty
   history, a failed probe re-opens with a fresh timeout -- also at call level:
   a probe call that ends in success must have closed the circuit, one that ends
   in failure (any stop reason but abort/cancel, including a deferred retry) must
   have re-opened it
"""
from __future__ import annotations

import random

from ..component import run_breaker_history
from ..drive import run_retry_scenario
from ..facts import V
from ..runner import chooser_for, digest
from . import breaker_common as BC
from . import common

ID = "C07"
LEVEL = "exploration"
RULE = ("seeded histories on a dyadic time grid: 35% component level, 30% sync policy sequences, 35% async concurrent "
        "calls sharing one breaker (interleaving by seeded ready order + start offsets + durations); distinct by "
        "(config, op/trace shape) hash; non-trivial = the breaker was OPEN or HALF_OPEN at some point; `states` = "
        "distinct (model state, method, next state, probe flag) transitions reached")
COMPONENTS = {"real": ["redress.circuit.CircuitBreaker", "redress.policy.Policy/AsyncPolicy/Retry/AsyncRetry + execution helpers",
                       "asyncio tasks on SimLoop"],
              "stub": ["clock (SimClock)", "event loop (SimLoop)", "operation/classifier/abort_if (scripted)", "RefBreaker is the oracle"]}
ASSUMPTIONS = ["a failure recorded while OPEN is ignored (statement silent; model mirrors the code)",
               "single-threaded: the breaker's method log is a total order", "sampling, not proof"]
INTERLEAVING_MEASURE = "distinct (scenario, ready-order choice sequence) pairs among concurrent async scenarios"
BUDGETS = {"quick": (90000, 90), "thorough": (2400000, 285)}


def gen(seed, tier="quick"):
    r = random.Random(seed)
    x = r.random()
    if x < 0.35:
        cfg = BC.gen_breaker_cfg(r)
        return {"kind": "breaker_hist", "grid": BC.U, "seed": seed, "cfg": cfg, "ops": BC.gen_breaker_ops(r, cfg), "base_us": r.choice([0, 8 * BC.U, 4096 * BC.U]),
                "sibling": BC.maybe_sibling(r, cfg)}
    if x < 0.65:
        return BC.gen_policy_history(seed, {"max_calls": 8, "p_abort": 0.2}, modes=("sync", "async"))
    return BC.gen_policy_history(seed, {"max_calls": 6, "p_abort": 0.2}, modes=("async",), concurrent=True)


def execute(scn):
    viol = []
    if scn["kind"] == "breaker_hist":
        steps, clock = run_breaker_history(scn)
        since_close = False
        for st in steps:
            if st["model"].get("ret") == "circuit_closed":
                since_close = True
            elif st["model"].get("ret") == "circuit_opened":
                since_close = False
            if st["real"] != st["model"]:
                before = st["model_state_before"]
                if before == "closed" and since_close and st["op"][0] == "fail":
                    viol.append(V("R4", "failure after a successful probe: history was not empty after closing", {"step": st, "cfg": scn["cfg"]}))
                elif before != "closed":
                    name = {"fail": "record_failure", "success": "record_success", "cancel": "record_cancel", "allow": "allow"}[st["op"][0]]
                    viol.append(V("R1" if name == "allow" else "R4", f"{name} while {before}: breaker and model disagree", {"step": st, "cfg": scn["cfg"]}))
                break
        nt = any(s["real"]["state"] != "closed" for s in steps)
        probes = {}
        for s in steps:
            if s["op"][0] == "allow" and s["real"].get("event") == "circuit_half_open":
                probes["probe_admitted"] = probes.get("probe_admitted", 0) + 1
        res = {"violations": viol, "shape": (digest(scn["cfg"]), tuple(tuple(o) for o in scn["ops"])), "nontrivial": nt,
               "faults": {"clock_advance": sum(1 for o in scn["ops"] if o[0] == "adv" and o[1])}, "probes": probes,
               "sim_us": clock.mono_us - clock.base_us, "digest": digest(steps), "runs": 1,
               "states": [(s["model_state_before"], s["op"][0], s["model"]["state"]) for s in steps]}
        if nt:
            res["sample"] = {"scenario": scn, "steps": steps[:30]}
        return res
    env, info = run_retry_scenario(scn, chooser=chooser_for(scn) if scn["mode"] == "async" else None)
    v, states = BC.refine_policy_log(scn, env.trace, "C07")
    seen = {}
    for x in v:
        seen.setdefault((x["rule"], x["sig"]), x)
    viol = list(seen.values())
    nt = any(e["ev"] == "BREAKER" and e["state"] != "closed" for e in env.trace)
    probes = {}
    R = scn["cfg"]["breaker"]["recovery_us"]
    opened_t = None
    for e in env.trace:
        if e["ev"] == "BREAKER":
            if e.get("ret") == "circuit_opened":
                opened_t = e["t"]
            if e["m"] == "allow" and e.get("bev") == "circuit_half_open":
                probes["probe_admitted"] = probes.get("probe_admitted", 0) + 1
                if opened_t is not None and e["t"] - opened_t == R:
                    probes["probe_admitted_exactly_at_timeout"] = probes.get("probe_admitted_exactly_at_timeout", 0) + 1
            if e["m"] == "allow" and not e["ret"] and e["state"] == "half_open":
                probes["second_probe_rejected"] = probes.get("second_probe_rejected", 0) + 1
    if info.get("multi_ready"):
        probes["two_tasks_ready_at_once"] = info["multi_ready"]
    faults = {"clock_advance": sum(1 for e in env.trace if e["ev"] == "ADVANCE" and e["us"]),
              "op_exc": sum(1 for e in env.trace if e["ev"] == "OP_END" and e["kind"] == "exc")}
    if scn.get("concurrent"):
        faults["task_interleave"] = len(info.get("choices") or [])
    for k, n in env.fault_counts.items():
        faults[k] = faults.get(k, 0) + n
    res = {"violations": viol, "shape": common.shape_of(scn, env.trace, env) + ((tuple(info.get("choices") or ()),) if scn.get("concurrent") else ()),
           "nontrivial": nt, "faults": faults, "probes": probes, "sim_us": info["sim_us"], "digest": digest(env.trace), "runs": 1,
           "states": list(states), "schedule": info.get("choices"),
           "interleaving": (scn.get("seed"), tuple(info.get("choices") or ())) if scn.get("concurrent") else None}
    if nt:
        res["sample"] = common.sample_of(scn, env.trace, 40)
    return res
