"""C08 -- every admitted call settles the breaker; no half-open probe slot is leaked
(fault enumeration).

A real CircuitBreaker (simulated clock) is driven to HALF-OPEN so that the call
under test is the admitted probe (second sub-batch: CLOSED; both also after an
earlier outage that ended with a successful probe), then ONE policy
call is made through one of the 8 entry points {sync, async} x {call, execute}
x {with retry, without}.  A fault-free reference run numbers attempts, sleeps,
callback invocations and (async) suspension points; then EVERY termination kind
is placed at EVERY point:
  * operation raises: AbortRetryError, KeyboardInterrupt, SystemExit,
    GeneratorExit, CancelledError, a nested CircuitOpenError, a nested
    RetryExhaustedError -- at attempt n, for every n
  * sleeper raises (start / end of sleep j): KeyboardInterrupt, SystemExit,
    CancelledError, GeneratorExit, and an ordinary exception
  * (async) task.cancel() at suspension point k, for every k
  * raising callback at invocation i, for every i: classifier, result
    classifier, attempt-start hook, attempt-end hook, strategy, abort_if,
    sleep handler
  * every operation-raised termination again with an always-raising
    attempt-end (and, for attempt 1, attempt-start) hook
plus the reference run's own normal ending (value, any-class exception, result
exhaustion, abort flag, handler ABORT / DEFER, budget refusal ...).

R1 told   : between admission and the end of call()/execute() the breaker
            received at least one record_*
R2 settled: after the call, advance the clock by recovery_timeout_s and ask for
            admission on the real breaker: admitted
R3 the call under test itself is admitted (every pre-state is CLOSED, or OPEN
   with the recovery timeout elapsed and no call outstanding)
"""
from __future__ import annotations

import copy
import random

from .. import gen as G
from ..drive import run_retry_scenario
from ..facts import V, split_calls
from ..runner import chooser_for, digest
from . import common

ID = "C08"
LEVEL = "fault_enumeration"
KNOBS = {"entries": ["Policy"], "p_abort": 0.15, "p_abort_if": 0.5, "p_decisions": 0.5, "p_handler": 0.55, "p_decide_first": 0.6, "p_budget": 0.2,
         "p_generous": 0.7, "p_ok": 0.3, "p_retryable": 0.85, "p_single_call": 1.0, "p_att_hooks": 0.7, "p_before_sleep": 0.4,
         "p_hostile": 0.05, "p_per_class": 0.2}
RULE = ("per seeded base scenario: exhaustive enumeration of termination kind x placement (every attempt, every sleep "
        "start/end, every suspension point, every callback invocation); evaluations = base scenarios, simulated_runs = "
        "reference + fault runs; a case is distinct by (entry point, breaker pre-state, termination kind, placement "
        "class); non-trivial = the call was admitted")
COMPONENTS = dict(common.REAL_COMPONENTS)
ASSUMPTIONS = ["fault points are enumerated completely per base scenario; base scenarios (config, outcome script, entry point) are sampled",
               "one call outstanding at a time (concurrent probes are C07's domain)"]
STATES_MEASURE = "distinct (entry point, breaker pre-state, termination kind, placement class) cells in which an admitted call was terminated"
BUDGETS = {"quick": (2400, 90), "thorough": (130000, 285)}
SHRINK_CAP = 150
OP_KINDS = [("abort", None), ("base", "KeyboardInterrupt"), ("base", "SystemExit"), ("base", "GeneratorExit"),
            ("base", "CancelledError"), ("nested_coe", None), ("nested_ree", None),
            ("base", "HybridCancelled"), ("base", "HybridInterrupt"), ("base", "HybridExit"), ("hostile_status", None)]
SLEEP_EXC = ["KeyboardInterrupt", "SystemExit", "CancelledError", "GeneratorExit", "RuntimeError"]
CALLBACKS = ["classifier", "result_classifier", "attempt_start", "attempt_end", "strategy", "abort_if", "handler"]
R_US = 2_000_000


def gen(seed, tier="quick"):
    scn = G.gen_retry(seed, KNOBS)
    r = random.Random(seed ^ 0xC08)
    scn["entry"] = r.choice(["Policy", "Policy", "Policy.noretry"])
    scn["how"] = r.choice(["call", "execute"])
    if scn["how"] == "call":
        scn["hooks"]["timeline"] = None
    F = r.choice([1, 2])
    scn["cfg"]["breaker"] = {"kind": "real", "failure_threshold": F, "window_us": 60_000_000, "recovery_us": R_US,
                             "trip_on": ["TRANSIENT", "SERVER_ERROR", "UNKNOWN", "RATE_LIMIT"]}
    pre = scn.get("pre") or []
    scn["pre_state"] = r.choice(["half_open", "half_open", "closed", "half_open_again", "closed_again"])
    trip = [["fail", "TRANSIENT"]] * F + [["adv", R_US + 1_000_000]]   # strictly past the timeout (float rounding at the exact boundary)
    if scn["pre_state"].endswith("_again"):
        pre = pre + trip + [["allow"], ["success"]]        # an earlier outage that ended with a successful probe
    if scn["pre_state"].startswith("half_open"):
        pre = pre + trip
    scn["pre"] = pre
    scn["post"] = [["adv", R_US + 1_000_000], ["allow"]]  # strictly past the timeout: immune to float rounding at the boundary
    if scn["mode"] == "async":
        scn["place"]["bs_async"] = r.choice([False, True, True, "aw"])
    if r.random() < 0.15:
        scn["cfg"]["breaker"]["falsy"] = True      # a breaker subclass that is falsy whenever it is not CLOSED
    if scn["entry"] != "Policy.noretry" and r.random() < 0.15:
        scn["cfg"]["attempt_timeout_us"] = 3_600_000_000   # never fires; exercises _call_with_timeout / asyncio.wait_for
    return scn


def _run(scn):
    return run_retry_scenario(scn, chooser=chooser_for(scn) if scn["mode"] == "async" else None)


def judge(scn, env, tag, out, cases):
    cf = split_calls(env.trace).get(0)
    ent = f"{scn['mode']}:{scn['entry']}.{scn['how']}"
    if cf is None or cf.begin is None:
        return
    admitted = any(e["ev"] == "BREAKER" and e["m"] == "allow" and e["ret"] for e in cf.events)
    if not admitted:
        if any(e["ev"] == "BREAKER" and e["m"] == "allow" for e in cf.events):
            # every pre-state is either closed or "recovery timeout elapsed, no call outstanding"
            out.append(V("R3", f"call refused although no call is outstanding and the recovery timeout has elapsed: {ent} pre={scn.get('pre_state')}",
                         {"entry": ent, "fault": tag, "pre_state": scn.get("pre_state")}))
        return
    cases.add((ent, scn.get("pre_state"), tag.split("@")[0], tag.split("@")[1].rstrip("0123456789=") if "@" in tag else ""))
    recs = [e for e in cf.events if e["ev"] == "BREAKER" and e["m"] != "allow"]
    end = cf.end
    endk = "none" if end is None else (end["exc"]["type"] if end["how"] == "raise" else end["how"])
    cell = f"{ent} pre={scn.get('pre_state')} fault={tag.split('=')[0] if '=' in tag else tag}"
    if not recs:
        out.append(V("R1", f"breaker never told that the admitted call ended: {cell}",
                     {"entry": ent, "fault": tag, "ending": endk, "pre_state": scn.get("pre_state")}))
    final_allow = [e for e in env.trace if e["ev"] == "BREAKER" and e["m"] == "allow" and e.get("call") is None]
    if final_allow and not final_allow[-1]["ret"]:
        out.append(V("R2", f"breaker wedged (probe slot leaked): {cell}",
                     {"entry": ent, "fault": tag, "ending": endk, "pre_state": scn.get("pre_state"), "state": final_allow[-1]["state"]}))


def execute(scn):
    viol = []
    cases = set()
    env0, info0 = _run(scn)
    runs = 1
    sim_us = info0["sim_us"]
    faults = {}
    digests = [digest(env0.trace)]
    cf0 = split_calls(env0.trace).get(0)
    ref_end = "value"
    if cf0 is not None and cf0.end is not None:
        e = cf0.end
        if e["how"] == "raise":
            ref_end = "raise:" + e["exc"]["type"] + ":" + str((e["exc"].get("ree") or {}).get("stop_reason"))
        elif e["how"] == "outcome":
            ref_end = "outcome:" + str(e["out"]["stop_reason"]) + ":" + str(e["out"]["ok"])
    judge(scn, env0, "normal:" + ref_end + "@end", viol, cases)
    if cf0 is None:
        return {"violations": [], "shape": None, "nontrivial": False, "runs": 1, "sim_us": sim_us, "faults": {}, "probes": {}}
    n_att = len(cf0.attempts)
    n_sleeps = len(cf0.all("SLEEP_BEGIN"))
    n_susp = len(cf0.all("YIELD"))
    counts = {"classifier": len(cf0.all("CLASSIFY")), "result_classifier": len(cf0.all("RCLASSIFY")),
              "attempt_start": len(cf0.all("ATT_START")), "attempt_end": len(cf0.all("ATT_END")), "strategy": len(cf0.all("STRATEGY")),
              "abort_if": len(cf0.all("POLL")), "handler": len(cf0.all("HANDLER"))}

    def variant(mut, tag):
        nonlocal runs, sim_us
        v = copy.deepcopy(scn)
        v.pop("schedule", None)
        mut(v)
        env, info = _run(v)
        runs += 1
        sim_us += info["sim_us"]
        for k, n in env.fault_counts.items():
            faults[k] = faults.get(k, 0) + n
        digests.append(digest(env.trace))
        judge(v, env, tag, viol, cases)

    for n in range(1, n_att + 1):
        def mut_detach(v, n=n):
            a = v["calls"][0]["attempts"]
            while len(a) < n:
                a.append(copy.deepcopy(a[-1]))
            a[n - 1] = dict(a[n - 1], detach_breaker=True)
        variant(mut_detach, f"normal:breaker-attribute-cleared@attempt={n}")
        for kind, x in OP_KINDS:
            if scn["mode"] == "sync" and x == "CancelledError" and False:
                continue

            def mut(v, n=n, kind=kind, x=x):
                a = v["calls"][0]["attempts"]
                while len(a) < n:
                    a.append(copy.deepcopy(a[-1]))
                st = {"kind": kind, "dur": a[n - 1].get("dur", 0)}
                if x:
                    st["exc"] = x
                a[n - 1] = st
            variant(mut, f"op:{x or kind}@attempt={n}")
            # the same termination while the attempt-end / attempt-start hook misbehaves
            for hook in ("attempt_end", "attempt_start"):
                if hook == "attempt_start" and n > 1:
                    continue

                def mut2(v, mut=mut, hook=hook):
                    mut(v)
                    v["place"]["att_hooks"] = v["place"].get("att_hooks") if v["place"].get("att_hooks") not in (None, "none") else "call"
                    v["calls"][0].setdefault("faults", []).append({"site": hook, "at": "always", "exc": "RuntimeError", "kind": "callback_raise"})
                variant(mut2, f"op:{x or kind}+raising_{hook}@attempt={n}")
    for j in range(n_sleeps):
        for site in ("sleeper", "sleeper_after"):
            for x in SLEEP_EXC:
                variant(lambda v, j=j, x=x, site=site: v["calls"][0].setdefault("faults", []).append(
                    {"site": site, "at": j, "exc": x, "kind": "base_exc" if x != "RuntimeError" else "callback_raise"}),
                    f"{site}:{x}@sleep={j}")
    if scn["mode"] == "async":
        for k in range(n_susp):
            variant(lambda v, k=k: v["calls"][0].setdefault("faults", []).append({"site": "cancel", "at": k, "frac": 50 if k % 2 else 0}),
                    f"cancel@suspension={k}")
    for cb in CALLBACKS:
        for i in range(counts[cb]):
            variant(lambda v, cb=cb, i=i: v["calls"][0].setdefault("faults", []).append(
                {"site": cb, "at": i, "exc": "RuntimeError", "kind": "callback_raise"}), f"raise:{cb}@invocation={i}")
    for e in env0.trace:
        if e["ev"] == "OP_END" and e["kind"] in ("exc", "res"):
            key = "op_exc" if e["kind"] == "exc" else "op_result"
            faults[key] = faults.get(key, 0) + 1
    seen = {}
    for v in viol:
        seen.setdefault((v["rule"], v["sig"]), v)
    res = {"violations": list(seen.values()), "shape": (scn["mode"], scn["entry"], scn["how"], scn.get("pre_state"), ref_end, n_att, n_sleeps),
           "nontrivial": True, "faults": faults, "probes": {"fault_runs": runs - 1}, "sim_us": sim_us, "digest": digest(digests), "runs": runs,
           "states": list(cases)}
    res["sample"] = {"scenario": scn, "fault_runs": runs - 1, "attempts": n_att, "sleeps": n_sleeps, "suspension_points": n_susp,
                     "callback_invocations": counts, "reference_ending": ref_end}
    return res
