"""C11 -- execute() returns a faithful RetryOutcome and does not raise for failures.

R1 execute() raises only: cancellation-type exceptions, a RetryExhaustedError
   raised by the operation itself, or an error injected into the caller's own
   strategy / classifier / sleeper callback; conversely an error injected into
   the strategy or the sleeper (which only the retry loop ever invokes) must
   leave execute() -- it may not be absorbed and retried as if the operation had
   failed
R2 ok <=> the final attempt succeeded; then value *is* that result and
   stop_reason, last_class, last_exception, last_result, cause, next_sleep_s are None
R3 otherwise stop_reason is in the holds-set, attempts = #invocations, last_class /
   cause / exactly one of last_exception|last_result describe the final
   (classified) failure -- all None when no failure was classified --
   next_sleep_s = applied delay iff SCHEDULED
R4 rejected by the breaker: ok=False, attempts=0, last_exception a CircuitOpenError
For policies without a retry component stop_reason is not constrained.
"""
from __future__ import annotations

import random

from .. import gen as G
from ..facts import V, analyze, entry_name, feq, final_failure_candidates, pre_aborted, rejected
from . import common

ID = "C11"
LEVEL = "exploration"
KNOBS = {"p_zero_attempts": 0.04, "p_attempt_timeout": 0.1, "p_firing_timeout": 0.12, "hows": ["execute"], "p_result": 0.7, "p_decisions": 0.5, "p_handler": 0.5, "p_abort": 0.35, "p_abort_if": 0.7,
         "p_budget": 0.3, "p_generous": 0.5, "p_ok": 0.15, "p_retryable": 0.8}
RULE = ("seeded swarm over the execute entry points (Retry/Policy/RetryPolicy/from_config, +no-retry Policy, +breaker "
        "rejection; sync+async), abort at every poll index, handler decisions, plus a faulty sub-batch injecting raising "
        "strategy/classifier/sleeper callbacks, KeyboardInterrupt/SystemExit/CancelledError and nested RetryExhaustedError "
        "from the operation; distinct by trace shape; non-trivial = >=1 failed attempt or fault")
COMPONENTS = common.REAL_COMPONENTS
ASSUMPTIONS = ["attempt hooks, sleep handler, abort_if and result classifier are well-behaved (the statement is silent on them)",
               "'final failure' = the last failure the loop recorded: an abort poll answering True immediately after an attempt ends hides that attempt's failure (exception or result) from the outcome",
               "sampling, not proof"]
BUDGETS = {"quick": (60000, 90), "thorough": (3500000, 285)}

CANCEL_TYPES = {"KeyboardInterrupt", "SystemExit", "CancelledError"}


def gen(seed, tier="quick"):
    scn = G.gen_retry(seed, KNOBS)
    r = random.Random(seed ^ 0xC11)
    x = r.random()
    if x < 0.12:
        scn["entry"] = "Policy.noretry"
        scn["cfg"]["breaker"] = r.choice([None, {"kind": "real", "failure_threshold": 2}])
    elif x < 0.22 and scn["entry"] == "Policy":
        # breaker already open -> rejection
        scn["cfg"]["breaker"] = {"kind": "real", "failure_threshold": 1, "recovery_us": 30_000_000}
        scn["pre"] = (scn.get("pre") or []) + [["fail", "TRANSIENT"]]
    if r.random() < 0.1 and scn["entry"] != "Policy.noretry":
        # the operation itself asks to stop
        call = scn["calls"][0]
        i = r.randrange(0, max(1, min(scn["cfg"]["max_attempts"], len(call["attempts"]))))
        call["attempts"][i] = {"kind": "abort", "dur": call["attempts"][i].get("dur", 0)}
    # faulty sub-batch (kept separate: ~25 %)
    if r.random() < 0.25 and scn["entry"] != "Policy.noretry":
        call = scn["calls"][0]
        kind = r.choice(["strategy", "classifier", "sleeper", "base", "nested_ree", "attempt_start", "attempt_start"])
        hook_site = r.choice(["attempt_start", "attempt_end"])
        n = max(scn["cfg"]["max_attempts"], 1)
        if kind in ("strategy", "classifier", "sleeper"):
            call["faults"] = [{"site": kind, "at": r.randrange(0, n), "exc": r.choice(["ValueError", "RuntimeError", "KeyError", "Custom", "ZeroDivisionError"]),
                               "kind": "callback_raise"}]
        elif kind == "attempt_start":
            # a raising on_attempt_start hook (the statement is silent on whether it propagates): if execute() does
            # return an outcome, that outcome is still held to R2/R3 (attempts = invocations, final failure ...)
            call["faults"] = [{"site": hook_site, "at": r.randrange(0, n), "exc": r.choice(["ValueError", "RuntimeError", "KeyError"]), "kind": "callback_raise"}]
            if scn["place"].get("att_hooks", "none") == "none":
                scn["place"]["att_hooks"] = r.choice(["policy", "call", "both"])
        elif kind == "base":
            i = r.randrange(0, min(n, len(call["attempts"])))
            call["attempts"][i] = {"kind": "base", "exc": r.choice(["KeyboardInterrupt", "SystemExit", "CancelledError"]), "dur": 0}
        else:
            i = r.randrange(0, min(n, len(call["attempts"])))
            call["attempts"][i] = {"kind": "nested_ree", "dur": 0}
        scn["faulty"] = True
    return scn


def oracle(scn, trace):
    out = []
    ent = entry_name(scn)
    noretry = scn["entry"] == "Policy.noretry"
    for cid, (cf, infos) in analyze(scn, trace).items():
        end = cf.end
        if end is None:
            continue
        injected = [e for e in cf.events if e["ev"] == "FAULT" and e["site"] in ("strategy", "classifier", "sleeper")]
        if end["how"] == "raise":
            exc = end["exc"]
            ok_raise = False
            last = infos[-1].a if infos else None
            if exc["type"] in CANCEL_TYPES and last is not None and last.kind == "base" and exc.get("obj") == last.obj:
                ok_raise = True
            elif exc["type"] == "RetryExhaustedError" and last is not None and last.kind == "nested_ree" and exc.get("obj") == last.obj:
                ok_raise = True
            elif injected and exc["type"] in (injected[-1]["exc"], "CustomHookError" if injected[-1]["exc"] == "Custom" else None):
                ok_raise = True
            elif any(e["ev"] == "FAULT" and e["site"] in ("attempt_start", "attempt_end") and e["obj"] == exc.get("obj") for e in cf.events):
                ok_raise = True      # the injected hook error itself (not constrained by the statement)
            if not ok_raise:
                out.append(V("R1", f"execute() raised {exc['type']}", {"call": cid, "exc": exc, "entry": ent,
                                                                        "last_attempt": None if last is None else (last.kind, last.fclass)}))
            continue
        if end["how"] != "outcome":
            continue
        o = end["out"]
        if injected:
            # strategy and sleeper are only ever invoked by the retry loop: an error they raised must have left
            # execute() (the classifier is also consulted on the breaker's behalf, where an error is absorbed by design)
            lost = [e for e in injected if e["site"] in ("strategy", "sleeper")]
            if lost:
                out.append(V("R1", f"error raised by the caller's {lost[0]['site']} did not propagate out of execute()",
                             {"call": cid, "entry": ent, "fault": lost[0]["exc"], "out": {k: v for k, v in o.items() if k != "timeline"}}))
            continue
        if rejected(cf):
            if o["ok"] or o["attempts"] != 0 or o["last_exception_type"] != "CircuitOpenError" or cf.attempts:
                out.append(V("R4", "breaker rejection not reported as ok=False/attempts=0/CircuitOpenError", {"call": cid, "out": o, "entry": ent}))
            continue
        last = infos[-1] if infos else None
        if last is not None and last.a.kind == "ok":
            bad = []
            if not o["ok"]:
                bad.append("ok is False after a successful final attempt")
            if o["value"] != last.a.obj:
                bad.append("value is not the final attempt's result")
            for f in ("stop_reason", "last_class", "last_exception", "last_result", "cause", "next_sleep_s"):
                if o[f] is not None:
                    bad.append(f"{f} set on a successful outcome")
            if o["attempts"] != len(cf.attempts):
                bad.append("attempts != invocations")
            for b in bad:
                out.append(V("R2", b, {"call": cid, "out": {k: v for k, v in o.items() if k != "timeline"}, "entry": ent}))
            continue
        # failure / abort / deferral
        bad = []
        if o["ok"]:
            bad.append("ok is True although the final attempt did not succeed")
        if o["value"] is not None:
            bad.append("value set on a failed outcome")
        if o["attempts"] != len(cf.attempts):
            bad.append(f"attempts {o['attempts']} != invocations {len(cf.attempts)}")
        if noretry:
            a = last.a if last else None
            if a is not None and a.kind == "exc":
                if o["last_exception"] != a.obj:
                    bad.append("last_exception is not the operation's exception")
                if o["cause"] != "exception" or o["last_class"] is None:
                    bad.append("cause/last_class do not describe the exception")
        else:
            holds = set(last.holds) if last is not None else set()
            if last is None and scn["cfg"]["max_attempts"] <= 0:
                holds.add("MAX_ATTEMPTS_GLOBAL")      # no attempt is permitted at all
            if pre_aborted(cf) or (last is not None and last.a.kind == "abort"):
                holds.add("ABORTED")
            if last is not None and not last.classified and last.a.kind in ("exc", "res") and last.first_true is not None:
                holds.add("ABORTED")
            if o["stop_reason"] not in holds:
                bad.append(f"stop_reason {o['stop_reason']} does not hold (holds: {sorted(holds)})")
            def describe_problems(fin):
                probs = []
                if fin is None:
                    for f in ("last_class", "last_exception", "last_result", "cause"):
                        if o[f] is not None:
                            probs.append(f"{f} set although no failure was recorded")
                    return probs
                a = fin.a
                # an exception whose classification was pre-empted by the abort poll has no observable class
                if a.fclass is not None and o["last_class"] != a.fclass:
                    probs.append(f"last_class {o['last_class']} != final failure class {a.fclass}")
                if o["cause"] != a.cause:
                    probs.append(f"cause {o['cause']} != {a.cause}")
                if a.cause == "exception":
                    if o["last_exception"] != a.obj:
                        probs.append(f"last_exception {o['last_exception']} is not the final exception {a.obj}")
                    if o["last_result"] is not None:
                        probs.append("last_result set on an exception-caused failure")
                else:
                    if o["last_result"] != a.obj:
                        probs.append(f"last_result {o['last_result']} is not the final result {a.obj}")
                    if o["last_exception"] is not None:
                        probs.append("last_exception set on a result-caused failure")
                return probs

            alternatives = [describe_problems(c) for c in final_failure_candidates(infos)]
            if all(alternatives):           # every acceptable reading has a problem: report the primary one's
                bad.extend(alternatives[0])
            sched = last is not None and last.decision == "D"
            if sched:
                if o["next_sleep_s"] is None or not feq(o["next_sleep_s"], last.applied):
                    bad.append(f"next_sleep_s {o['next_sleep_s']} != deferred delay {last.applied}")
                if o["stop_reason"] != "SCHEDULED":
                    bad.append("deferred run not SCHEDULED")
            elif o["next_sleep_s"] is not None:
                bad.append("next_sleep_s set on a non-deferred outcome")
        for b in bad:
            out.append(V("R3", " ".join(b.split(" ")[:1]) + " inconsistent in RetryOutcome", {"call": cid, "problem": b, "entry": ent,
                         "out": {k: v for k, v in o.items() if k != "timeline"}, "history": [(x.kind, x.fclass) for x in cf.attempts]}))
    return out


def execute(scn):
    return common.execute_retry(scn, oracle)
