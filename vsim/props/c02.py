"""C02 -- deadline envelope on the monotonic clock.

With t0 = monotonic instant at the start of the call, D = deadline (integer us):
R1 every attempt k >= 2 begins at t - t0 <= D
R2 every requested sleep d satisfies 0 <= d <= remaining at that moment
R3 sum of requested sleeps <= D
R4 a failure observed at elapsed >= D is followed by no sleep and no attempt
R5 wall-clock independence: re-running the scenario with a different wall-clock
   jump plan yields the identical trace
All integer arithmetic on the microsecond grid; besides the operation and the
sleeper only the strategy's record_failure feedback hook takes virtual time (it
runs between the loop's deadline check and its computation of the remaining
time); everything between that computation and the sleep request is instantaneous.
"""
from __future__ import annotations

import copy
import random

from .. import gen as G
from ..clock import sec_to_us
from ..drive import run_retry_scenario
from ..facts import SLACK, V, analyze, entry_name
from ..runner import chooser_for, digest
from . import common

ID = "C02"
LEVEL = "exploration"
KNOBS = {"p_firing_timeout": 0.1, "p_feedback": 0.4, "p_slow_feedback": 0.6, "p_attempt_timeout": 0.2, "p_generous": 0.12, "p_overshoot": 0.5, "p_wall_jumps": 0.6, "p_hostile": 0.3, "p_budget": 0.1, "p_abort": 0.05,
         "p_decisions": 0.1, "p_handler": 0.2, "p_ok": 0.08, "p_retryable": 0.95, "p_per_class": 0.15, "p_default": 0.95}
RULE = ("seeded swarm with boundary-biased timings: deadline steered to elapsed-1us/==/+1us at a failure or after a "
        "sleep, sleeper overshoots, strategies asking for more than remains (and NaN/inf/negatives), wall-clock jumps "
        "of seconds..days between any two clock reads; 2-3 overlapping async calls on one policy object (per-call t0); distinct by trace shape; non-trivial = >=1 failed attempt")
COMPONENTS = common.REAL_COMPONENTS
ASSUMPTIONS = ["callbacks other than operation, sleeper and the strategy feedback hook take zero virtual time", "sleeper overshoot >= 0",
               "the sleep handler never defers past the envelope (DEFER ends the run)", "sampling, not proof"]
BUDGETS = {"quick": (48000, 90), "thorough": (2200000, 285)}


def gen(seed, tier="quick"):
    scn = G.gen_retry(seed, KNOBS)
    if scn["mode"] == "async" and (seed >> 7) % 5 == 0:
        # the event loop keeps a clock of its own that does not advance while a callback blocks the loop (legal for
        # an event loop; virtual-time loops do it): the deadline is defined on the monotonic clock, not on loop.time()
        scn["cfg"]["loop_clock_lags"] = True
    r = random.Random(seed ^ 0xC02)
    if scn["mode"] == "async" and len(scn["calls"]) > 1 and scn["entry"] != "decorator" and r.random() < 0.6:
        # overlapping calls on ONE policy object (tasks on the simulated loop): "from the start of the call" is per
        # call -- a later call starting must not move an earlier, still running call's envelope.  Each call's t0 is
        # its own CALL_BEGIN, so the rules are unchanged; start offsets and operation durations make the calls overlap.
        scn["concurrent"] = True
        # section 8 rule 3 ("at that moment" is one instant) must survive concurrency: a before_sleep hook that
        # really suspends would let ANOTHER task's blocking callback move the clock between the clamp and the sleep
        # request - the slow-hook case the convention excludes - so the hook is the plain (non-suspending) one here
        scn["place"]["bs_async"] = False
        for c in scn["calls"]:
            c.pop("before", None)
            c["start_us"] = r.choice([0, 0, 1000, 250_000, 600_000])
            for st in c["attempts"]:
                if st.get("dur", 0) == 0:
                    st["dur"] = r.choice([0, 1000, 250_000, 500_000])
    return scn


def oracle(scn, trace):
    out = []
    D = scn["cfg"]["deadline_us"]
    ent = entry_name(scn)
    for cid, (cf, infos) in analyze(scn, trace).items():
        total = 0
        for inf in infos:
            a = inf.a
            if a.k >= 2 and a.t_begin - cf.t0 > D:
                out.append(V("R1", "attempt began after the deadline", {"call": cid, "attempt": a.k, "elapsed_us": a.t_begin - cf.t0, "deadline_us": D, "entry": ent}))
            for s in inf.sleeps:
                d = s["delay"]
                el = s["t"] - cf.t0
                rem_us = D - el
                bad = None
                if isinstance(d, str) or d != d:
                    bad = "non-finite sleep requested"
                elif d < -SLACK:
                    bad = "negative sleep requested"
                elif d > rem_us / 10**6 + SLACK:
                    bad = "sleep longer than the time remaining"
                if bad:
                    out.append(V("R2", bad, {"call": cid, "attempt": a.k, "delay": d, "elapsed_us": el, "deadline_us": D, "entry": ent}))
                total += sec_to_us(d) if not isinstance(d, str) else 0
            if inf.classified and inf.e_us >= D and (inf.sleeps or inf.nxt is not None):
                out.append(V("R4", "failure at/after the deadline was retried", {"call": cid, "attempt": a.k, "elapsed_us": inf.e_us, "deadline_us": D,
                                                                                 "slept": bool(inf.sleeps), "next_attempt": inf.nxt is not None, "entry": ent}))
        if total > D:
            out.append(V("R3", "total requested sleep exceeds deadline", {"call": cid, "total_us": total, "deadline_us": D, "entry": ent}))
    return out


def _probes(scn, trace, probes):
    D = scn["cfg"]["deadline_us"]
    t0 = {}
    for e in trace:
        if e["ev"] == "CALL_BEGIN":
            t0[e["call"]] = e["t"]
        elif e["ev"] == "OP_END" and e["kind"] != "ok":
            d = e["t"] - t0.get(e["call"], 0) - D
            if d == 0:
                probes["failure_exactly_at_deadline"] = probes.get("failure_exactly_at_deadline", 0) + 1
            elif d in (-1, 1):
                probes["failure_1us_from_deadline"] = probes.get("failure_1us_from_deadline", 0) + 1
        elif e["ev"] == "SLEEP_END":
            d = e["t"] - t0.get(e["call"], 0) - D
            if d == 0:
                probes["sleep_ends_exactly_at_deadline"] = probes.get("sleep_ends_exactly_at_deadline", 0) + 1
            elif d > 0:
                probes["sleeper_overshot_deadline"] = probes.get("sleeper_overshot_deadline", 0) + 1
        elif e["ev"] == "SLEEP_BEGIN" and not isinstance(e["delay"], str):
            if sec_to_us(e["delay"]) == D - (e["t"] - t0.get(e["call"], 0)) and e["delay"] > 0:
                probes["sleep_clamped_to_remaining"] = probes.get("sleep_clamped_to_remaining", 0) + 1


def execute(scn):
    res = common.execute_retry(scn, oracle, probes_fn=_probes)
    # R5: same scenario, different wall clock history
    alt = copy.deepcopy(scn)
    ck = alt.setdefault("clock", {})
    if ck.get("jumps") or ck.get("skew_us"):
        ck["jumps"] = None
        ck["skew_us"] = 0
    else:
        ck["jumps"] = [3_600_000_000, -86_400_000_000, 0, 7]
        ck["skew_us"] = -10**11
    if scn["mode"] == "async" and res.get("schedule") is not None:
        alt["schedule"] = res["schedule"]
    env2, info2 = run_retry_scenario(alt, chooser=chooser_for(alt) if alt["mode"] == "async" else None)
    res["runs"] += 1
    if info2.get("wall_jumps"):
        res["faults"]["wall_jump"] = res["faults"].get("wall_jump", 0) + info2["wall_jumps"]
    if digest(env2.trace) != res["digest"]:
        res["violations"].append(V("R5", "behaviour depends on the wall clock", {"entry": entry_name(scn)}))
    return res
