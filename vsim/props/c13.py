"""C13 -- abort and cancellation stop work immediately and are never retried
(fault enumeration).

For each seeded base scenario a fault-free reference run numbers the abort
polls, attempts, sleeps and (async) suspension points; then EVERY one of these
is turned into a fault run:
  * abort_if first answers True at poll index p, for every p (and p+1: never)
  * the operation raises AbortRetryError at attempt n, for every n
  * KeyboardInterrupt / SystemExit / CancelledError raised by the operation at
    attempt n, by the sleeper at the start and at the end of sleep j
  * (async) task.cancel() while suspended at suspension point k, for every k,
    immediately and half-way through the pending wait (operation awaits,
    awaitable before_sleep hooks, sleeper awaits)

R1 poll coverage: with abort_if configured there is a poll before the first
   attempt and between any two consecutive actions (attempt / sleep), and the
   poll that guards a backoff comes after the retry decision (strategy / budget
   / `retry` event) and before the sleep handler, before_sleep and the sleeper
R2 after the first poll answering True, or AbortRetryError from the operation:
   no attempt, no sleep, no handler consultation; the call ends with
   AbortRetryError (call) / stop_reason ABORTED (execute)
R3 a cancellation-type exception leaves call()/execute() as the same object,
   at the same virtual instant, with no classification, strategy call, retry
   event, sleep or attempt after it; a cancelled task ends cancelled
"""
from __future__ import annotations

import copy
import random

from .. import gen as G
from ..drive import run_retry_scenario
from ..facts import V, entry_name, split_calls
from ..runner import chooser_for, digest
from . import common

ID = "C13"
LEVEL = "fault_enumeration"
KNOBS = {"p_abort": 0.0, "p_abort_if": 0.85, "p_decisions": 0.25, "p_handler": 0.4, "p_budget": 0.2, "p_generous": 0.7,
         "p_ok": 0.2, "p_retryable": 0.9, "p_per_class": 0.2, "p_single_call": 1.0, "p_before_sleep": 0.6, "p_hostile": 0.05}
RULE = ("per seeded base scenario: exhaustive enumeration of abort poll indices, AbortRetryError / KeyboardInterrupt / "
        "SystemExit / CancelledError placements at every attempt and every sleep (start and end), and (async) "
        "task.cancel() at every suspension point (immediately and mid-wait); evaluations = base scenarios, simulated_runs "
        "= reference + fault runs; distinct by reference trace shape; non-trivial = >=1 failed attempt or fault fired")
COMPONENTS = common.REAL_COMPONENTS
ASSUMPTIONS = ["fault points are enumerated completely per base scenario; base scenarios are sampled",
               "GeneratorExit and a CancelledError raised inside a *sync* call are not in C13's statement (C08 covers settling)"]
BUDGETS = {"quick": (4500, 90), "thorough": (300000, 285)}
SHRINK_CAP = 200
CANCELS = ["KeyboardInterrupt", "SystemExit", "CancelledError"]
# application classes that inherit from a cancellation type AND from Exception (e.g. "RequestCancelled"): still
# cancellation-type exceptions
HYBRIDS = ["HybridCancelled", "HybridInterrupt", "HybridExit"]
FORBIDDEN_AFTER_ABORT = ("OP_BEGIN", "SLEEP_BEGIN", "HANDLER", "BEFORE_SLEEP")
FORBIDDEN_AFTER_CANCEL = ("OP_BEGIN", "SLEEP_BEGIN", "HANDLER", "BEFORE_SLEEP", "CLASSIFY", "RCLASSIFY", "STRATEGY", "BUDGET")


def gen(seed, tier="quick"):
    scn = G.gen_retry(seed, KNOBS)
    r = random.Random(seed ^ 0xC13)
    if r.random() < 0.08:
        scn["entry"] = "Policy.noretry"
    if scn["entry"] in ("Policy", "Policy.context", "Policy.noretry") and r.random() < 0.5:
        scn["cfg"]["breaker"] = {"kind": "real", "failure_threshold": 3}
    if scn["mode"] == "async":
        scn["place"]["bs_async"] = r.choice([False, True, True, "aw"])
        if r.random() < 0.4:
            for st in scn["calls"][0]["attempts"]:
                st["parts"] = r.choice([1, 2, 3])
    for c in scn["calls"]:
        c["abort_at"] = None
    if scn["entry"] != "Policy.noretry" and r.random() < 0.15:
        # per-attempt timeout that never fires: sync = the real worker-thread path of
        # _call_with_timeout (the operation returns at once in real time), async = asyncio.wait_for on the SimLoop
        scn["cfg"]["attempt_timeout_us"] = 3_600_000_000
    if scn["mode"] == "sync" and scn["entry"] != "Policy.noretry" and not scn["cfg"].get("attempt_timeout_us") and r.random() < 0.2:
        # per-attempt timeout through the simulated single-worker pool (never firing): lets an interruption be
        # delivered to the thread that WAITS for the attempt while the operation itself is still running
        scn["cfg"]["attempt_timeout_us"] = 3_600_000_000
        scn["cfg"]["timeouts_fire"] = True
    if scn["entry"] != "Policy.noretry" and r.random() < 0.12:
        # an on_attempt_end observer that cannot cope with the context of an interrupted (ABORTED) attempt and raises
        # on it: irrelevant to interruptions, which by the statement pass through "at once" -- only the
        # cancellation-type fault runs (c, d) are made for these base scenarios
        if scn["place"].get("att_hooks", "none") == "none":
            scn["place"]["att_hooks"] = r.choice(["policy", "call", "both"])
        scn["calls"][0].setdefault("faults", []).append({"site": "attempt_end", "at": "aborted", "exc": r.choice(["RuntimeError", "ValueError", "KeyError"]),
                                                         "kind": "callback_raise"})
        scn["strict_hook"] = True
    return scn


def _run(scn):
    return run_retry_scenario(scn, chooser=chooser_for(scn) if scn["mode"] == "async" else None)


def check_polls(scn, cf, out, ent, tag):
    if not (scn.get("hooks") or {}).get("abort_if"):
        return
    need = True  # a poll is required before the next action
    decided = False  # a retry was decided (strategy consulted / token taken / `retry` announced) and not polled since
    for e in cf.events:
        if e["ev"] == "POLL":
            need = False
            decided = False
        elif e["ev"] in ("STRATEGY", "BUDGET") or (e["ev"] in ("METRIC", "LOG") and e["event"] == "retry"):
            decided = True
        elif e["ev"] in ("HANDLER", "BEFORE_SLEEP", "SLEEP_BEGIN") and decided:
            # "consulted before every backoff sleep": the consultation guarding a sleep comes after
            # the decision to back off (the loop may have spent time computing it), as the
            # repository's own test_policy_abort_if_skips_sleep pins for one path
            out.append(V("R1", "no abort poll between the retry decision and the backoff", {"entry": ent, "event": e["ev"], "fault": tag}))
            decided = False
        if e["ev"] in ("OP_BEGIN", "SLEEP_BEGIN"):
            if need:
                what = "attempt" if e["ev"] == "OP_BEGIN" else "sleep"
                out.append(V("R1", f"no abort poll before {what}", {"entry": ent, "event": {k: e[k] for k in ("ev", "t") if k in e}, "k": e.get("k", e.get("j")), "fault": tag}))
            need = True


def check_abort(scn, cf, out, ent, tag):
    trig = None
    for e in cf.events:
        if (e["ev"] == "POLL" and e["ans"]) or (e["ev"] == "OP_END" and e["kind"] == "abort"):
            trig = e
            break
    if trig is None:
        return False
    after = [e for e in cf.events if e["seq"] > trig["seq"]]
    bad = [e["ev"] for e in after if e["ev"] in FORBIDDEN_AFTER_ABORT]
    if bad:
        out.append(V("R2", f"{bad[0]} after abort was requested", {"entry": ent, "after": bad, "fault": tag}))
    end = cf.end
    ok_end = False
    if end is not None:
        if end["how"] == "raise" and end["exc"]["type"] == "AbortRetryError":
            ok_end = True
        elif end["how"] == "outcome" and end["out"]["stop_reason"] == "ABORTED" and not end["out"]["ok"]:
            ok_end = True
    if not ok_end:
        out.append(V("R2", "aborted run did not end with AbortRetryError / ABORTED", {"entry": ent, "end": end, "fault": tag}))
    if end is not None and end["t"] != trig["t"]:
        out.append(V("R2", "virtual time passed between the abort request and the end of the call", {"entry": ent, "fault": tag, "abort_t": trig["t"], "end_t": end["t"]}))
    return True


def check_cancel(scn, cf, out, ent, tag, trig, want_obj, at_t):
    after = [e for e in cf.events if e["seq"] > trig["seq"]]
    bad = [e["ev"] + (":" + e["event"] if e["ev"] in ("METRIC", "LOG") else "") for e in after
           if e["ev"] in FORBIDDEN_AFTER_CANCEL or (e["ev"] in ("METRIC", "LOG") and e["event"] == "retry")]
    if bad:
        out.append(V("R3", f"{bad[0].split(':')[0]} after a cancellation-type exception", {"entry": ent, "after": bad, "fault": tag}))
    end = cf.end
    if end is None or end["how"] != "raise":
        out.append(V("R3", "cancellation-type exception was swallowed", {"entry": ent, "end": end, "fault": tag}))
        return
    exc = end["exc"]
    if want_obj is not None and exc.get("obj") != want_obj:
        out.append(V("R3", "a different exception left the call", {"entry": ent, "expected": want_obj, "got": exc, "fault": tag}))
    elif want_obj is None and exc["type"] != "CancelledError":
        out.append(V("R3", "cancelled task did not end cancelled", {"entry": ent, "got": exc, "fault": tag}))
    if end["t"] != at_t:
        out.append(V("R3", "cancellation was delayed", {"entry": ent, "raised_t": at_t, "end_t": end["t"], "fault": tag}))


def execute(scn):
    ent = entry_name(scn)
    viol = []
    env0, info0 = _run(scn)
    runs = 1
    faults = {}
    sim_us = info0["sim_us"]
    calls0 = split_calls(env0.trace)
    cf0 = calls0.get(0)
    if cf0 is None:
        return {"violations": [], "shape": None, "nontrivial": False, "runs": 1, "sim_us": sim_us, "faults": {}, "probes": {}}
    strict_hook = bool(scn.get("strict_hook"))
    check_polls(scn, cf0, viol, ent, "reference")
    if not strict_hook:
        check_abort(scn, cf0, viol, ent, "reference")
    n_polls = len(cf0.all("POLL"))
    n_att = len(cf0.attempts)
    n_sleeps = len(cf0.all("SLEEP_BEGIN"))
    n_susp = len(cf0.all("YIELD"))
    has_abort = (scn.get("hooks") or {}).get("abort_if")
    digests = [digest(env0.trace)]

    def variant(mut, tag):
        nonlocal runs, sim_us
        v = copy.deepcopy(scn)
        v.pop("schedule", None)
        mut(v)
        env, info = _run(v)
        runs += 1
        sim_us += info["sim_us"]
        for k, n in env.fault_counts.items():
            faults[k] = faults.get(k, 0) + n
        digests.append(digest(env.trace))
        return split_calls(env.trace).get(0), env

    probes = {}
    # (a) abort at every poll index
    if has_abort and not strict_hook:
        for p in range(0, min(n_polls, 40) + 1):
            cf, env = variant(lambda v, p=p: v["calls"][0].__setitem__("abort_at", p), f"abort_at_poll={p}")
            tag = f"abort_at_poll={p}"
            check_polls(scn, cf, viol, ent, tag)
            hit = check_abort(scn, cf, viol, ent, tag)
            if p < n_polls and not hit:
                viol.append(V("H1", "abort poll plan did not fire", {"p": p, "entry": ent}))
            probes["abort_poll_runs"] = probes.get("abort_poll_runs", 0) + 1
    # (b) AbortRetryError from attempt n
    for n in range(1, (0 if strict_hook else n_att) + 1):
        def mut(v, n=n):
            a = v["calls"][0]["attempts"]
            while len(a) < n:
                a.append(copy.deepcopy(a[-1]))
            a[n - 1] = {"kind": "abort", "dur": a[n - 1].get("dur", 0), "alias": (n + scn["seed"]) % 2 == 0}   # raised via either public name
        tag = f"op_abort@attempt={n}"
        cf, env = variant(mut, tag)
        check_polls(scn, cf, viol, ent, tag)
        check_abort(scn, cf, viol, ent, tag)
    # (c) cancellation-type exceptions from attempts and sleeps
    for n in range(1, n_att + 1):
        for x in CANCELS + [HYBRIDS[(n + scn["seed"]) % 3]]:
            def mut(v, n=n, x=x):
                a = v["calls"][0]["attempts"]
                while len(a) < n:
                    a.append(copy.deepcopy(a[-1]))
                a[n - 1] = {"kind": "base", "exc": x, "dur": a[n - 1].get("dur", 0), "parts": a[n - 1].get("parts", 1)}
            tag = f"{x}@attempt={n}"
            cf, env = variant(mut, tag)
            trig = next((e for e in cf.events if e["ev"] == "OP_END" and e["kind"] == "base"), None)
            if trig is None:
                viol.append(V("H1", "base exception plan did not fire", {"tag": tag, "entry": ent}))
                continue
            check_cancel(scn, cf, viol, ent, tag, trig, trig["obj"], trig["t"])
    if scn["mode"] == "sync" and scn["cfg"].get("timeouts_fire"):
        # (c') KeyboardInterrupt / SystemExit delivered by a signal to the waiting thread while attempt n is running
        for n in range(1, n_att + 1):
            for x in ("KeyboardInterrupt", "SystemExit"):
                def mut(v, n=n, x=x):
                    a = v["calls"][0]["attempts"]
                    while len(a) < n:
                        a.append(copy.deepcopy(a[-1]))
                    a[n - 1] = {"kind": "base", "exc": x, "signal": True, "dur": max(a[n - 1].get("dur", 0), 250_000)}
                tag = f"signal:{x}@attempt={n}"
                cf, env = variant(mut, tag)
                trig = next((e for e in cf.events if e["ev"] == "OP_END" and e["kind"] == "base"), None)
                if trig is None:
                    viol.append(V("H1", "signal plan did not fire", {"tag": tag, "entry": ent}))
                    continue
                check_cancel(scn, cf, viol, ent, tag, trig, trig["obj"], trig["t"])
                probes["signal_while_waiting"] = probes.get("signal_while_waiting", 0) + 1
    for j in range(n_sleeps):
        for site in ("sleeper", "sleeper_after"):
            for x in CANCELS:
                tag = f"{x}@{site}={j}"
                cf, env = variant(lambda v, j=j, x=x, site=site: v["calls"][0].setdefault("faults", []).append(
                    {"site": site, "at": j, "exc": x, "kind": "base_exc"}), tag)
                trig = next((e for e in cf.events if e["ev"] == "FAULT" and e["site"] == site), None)
                if trig is None:
                    viol.append(V("H1", "sleeper fault plan did not fire", {"tag": tag, "entry": ent}))
                    continue
                check_cancel(scn, cf, viol, ent, tag, trig, trig["obj"], trig["t"])
    # (d) task cancellation at every suspension point
    if scn["mode"] == "async":
        for k in range(n_susp):
            for frac in (0, 50):
                tag = f"cancel@suspension={k} frac={frac}"
                cf, env = variant(lambda v, k=k, frac=frac: v["calls"][0].setdefault("faults", []).append(
                    {"site": "cancel", "at": k, "frac": frac}), tag)
                trig = next((e for e in cf.events if e["ev"] == "FAULT" and e["site"] == "cancel"), None)
                if trig is None:
                    viol.append(V("H1", "cancel plan did not fire", {"tag": tag, "entry": ent}))
                    continue
                at_t = trig["t"] + trig.get("delay", 0)
                check_cancel(scn, cf, viol, ent, tag, trig, None, at_t)
                probes["cancel_points"] = probes.get("cancel_points", 0) + 1
    for e in env0.trace:
        if e["ev"] == "OP_END" and e["kind"] in ("exc", "res"):
            faults["op_exc" if e["kind"] == "exc" else "op_result"] = faults.get("op_exc" if e["kind"] == "exc" else "op_result", 0) + 1
    # de-duplicate violations per (rule, sig) keeping the first fault tag
    seen = {}
    for v in viol:
        seen.setdefault((v["rule"], v["sig"]), v)
    res = {"violations": list(seen.values()), "shape": common.shape_of(scn, env0.trace, env0), "nontrivial": True,
           "faults": faults, "probes": probes, "sim_us": sim_us, "digest": digest(digests), "runs": runs}
    res["sample"] = {"scenario": scn, "fault_runs": runs - 1, "polls": n_polls, "attempts": n_att, "sleeps": n_sleeps, "suspension_points": n_susp,
                     "trace_head": env0.trace[:25]}
    return res
