"""Deterministic simulation harness for aponysus/redress (see /verif/DESIGN.md)."""
