"""Brute-force linearizability check for small concurrent histories.

ops: list of dicts {tid, i (index within thread), inv (global seq at invoke),
ret (global seq at return), name, arg, result}.  A sequential order is valid if
it respects per-thread program order and real-time order (a.ret < b.inv => a
before b) and, applied to a copy of the model, reproduces every result -- and
afterwards the fixed probe suffix reproduces its results too."""
from __future__ import annotations

import copy


def linearizable(model0, ops, apply, suffix=None, suffix_results=None):
    """apply(model, name, arg) -> result.  Returns (ok, witness order or None)."""
    by_thread = {}
    for o in ops:
        by_thread.setdefault(o["tid"], []).append(o)
    for lst in by_thread.values():
        lst.sort(key=lambda o: o["i"])
    tids = sorted(by_thread)
    n = len(ops)
    seen = set()

    def rec(model, pos, order):
        if len(order) == n:
            if suffix:
                m = copy.deepcopy(model)
                for (name, arg), want in zip(suffix, suffix_results):
                    if apply(m, name, arg) != want:
                        return None
            return list(order)
        key = (tuple(pos[t] for t in tids), repr(sorted(vars(model).items(), key=lambda kv: kv[0])))
        if key in seen:
            return None
        seen.add(key)
        # minimal pending ops: next op of each thread, not preceded (real time) by another pending op's return
        nxt = [by_thread[t][pos[t]] for t in tids if pos[t] < len(by_thread[t])]
        for o in nxt:
            if any(p is not o and p["ret"] < o["inv"] for p in nxt):
                continue
            # also all *later* pending ops of other threads that returned before o was invoked
            blocked = False
            for t in tids:
                for p in by_thread[t][pos[t]:]:
                    if p is not o and p["ret"] < o["inv"]:
                        blocked = True
                        break
                if blocked:
                    break
            if blocked:
                continue
            m = copy.deepcopy(model)
            if apply(m, o["name"], o["arg"]) != o["result"]:
                continue
            pos[o["tid"]] += 1
            order.append((o["tid"], o["i"]))
            w = rec(m, pos, order)
            order.pop()
            pos[o["tid"]] -= 1
            if w is not None:
                return w
        return None

    w = rec(copy.deepcopy(model0), {t: 0 for t in tids}, [])
    return (w is not None), w


def linearizable_by_replay(make_instance, ops, apply, suffix=None, suffix_results=None, node_cap=200_000):
    """Like `linearizable`, but the sequential specification is the component's OWN
    single-threaded behaviour: a candidate order is valid if replaying it on a fresh
    instance (built by make_instance(), which also replays the initial history)
    reproduces every result and the probe-suffix results.  This is exactly C17's
    statement ("results equal to some sequential ordering of the same operations")
    and stays silent on purely sequential bugs, which are other properties' business."""
    by_thread = {}
    for o in ops:
        by_thread.setdefault(o["tid"], []).append(o)
    for lst in by_thread.values():
        lst.sort(key=lambda o: o["i"])
    tids = sorted(by_thread)
    n = len(ops)
    nodes = [0]

    def replay(order):
        inst = make_instance()
        for o in order:
            if apply(inst, o["name"], o["arg"]) != o["result"]:
                return None
        return inst

    def rec(pos, order):
        nodes[0] += 1
        if nodes[0] > node_cap:
            raise RuntimeError("linearizability search exceeded its node cap")
        if len(order) == n:
            inst = replay(order)
            if inst is None:
                return None
            if suffix:
                for (name, arg), want in zip(suffix, suffix_results):
                    if apply(inst, name, arg) != want:
                        return None
            return [(o["tid"], o["i"]) for o in order]
        for t in tids:
            if pos[t] >= len(by_thread[t]):
                continue
            o = by_thread[t][pos[t]]
            blocked = False
            for u in tids:
                for p in by_thread[u][pos[u]:]:
                    if p is not o and p["ret"] < o["inv"]:
                        blocked = True
                        break
                if blocked:
                    break
            if blocked:
                continue
            cand = order + [o]
            if replay(cand) is None:     # prefix already inconsistent: prune
                continue
            pos[t] += 1
            w = rec(pos, cand)
            pos[t] -= 1
            if w is not None:
                return w
        return None

    w = rec({t: 0 for t in tids}, [])
    return (w is not None), w
