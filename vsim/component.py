"""Component-level histories: a real CircuitBreaker / Budget on the simulated
clock, driven by a scripted sequence of public operations and clock advances,
refined step by step against the reference model."""
from __future__ import annotations

from redress import Budget, CircuitBreaker, ErrorClass

from . import seams
from .clock import SimClock
from .models import RefBreaker, RefBudget


def run_breaker_history(scn):
    """-> list of steps {op, now, real:{...}, model:{...}}"""
    cfg = scn["cfg"]
    clock = SimClock(scn.get("base_us", 0))
    seams.bind(clock, None)
    kw = dict(failure_threshold=cfg["F"], window_s=cfg["window_us"] / 1e6, recovery_timeout_s=cfg["recovery_us"] / 1e6,
              clock=clock.monotonic)
    tset = None
    if cfg.get("trip_on") is not None:
        tset = {ErrorClass[c] for c in cfg["trip_on"]}
        kw["trip_on"] = tset
    if cfg.get("class_thresholds"):
        kw["class_thresholds"] = {ErrorClass[c]: n for c, n in cfg["class_thresholds"].items()}
    sib = scn.get("sibling")     # another breaker built from the caller's SAME trip_on set object (or, like it, from the default)
    def make_sibling():
        CircuitBreaker(failure_threshold=3, window_s=1.0, recovery_timeout_s=1.0, trip_on=tset,
                       class_thresholds={ErrorClass[c]: n for c, n in sib["class_thresholds"].items()}, clock=clock.monotonic)
    if sib and sib.get("when") == "before":
        make_sibling()
        if tset is not None:
            tset.intersection_update({ErrorClass[c] for c in cfg["trip_on"]})   # the caller's set as the caller wrote it
    real = CircuitBreaker(**kw)
    if sib and sib.get("when") == "after":
        make_sibling()
    model = RefBreaker(cfg["F"], cfg["window_us"], cfg["recovery_us"], cfg.get("trip_on"), cfg.get("class_thresholds"))
    steps = []
    for op in scn["ops"]:
        name = op[0]
        if name == "adv":
            clock.advance(op[1])
            continue
        now = clock.mono_us - clock.base_us
        before = model.state
        if name == "allow":
            d = real.allow()
            r = {"ret": d.allowed, "event": d.event, "dstate": d.state.value}
            m_adm, m_ev = model.allow(now)
            m = {"ret": m_adm, "event": m_ev, "dstate": model.state}
        elif name == "success":
            r = {"ret": real.record_success()}
            m = {"ret": model.record_success(now)}
        elif name == "fail":
            r = {"ret": real.record_failure(ErrorClass[op[1]])}
            m = {"ret": model.record_failure(now, op[1])}
        elif name == "cancel":
            r = {"ret": real.record_cancel()}
            m = {"ret": model.record_cancel(now)}
        else:
            raise AssertionError(op)
        r["state"] = real.state.value
        m["state"] = model.state
        steps.append({"op": op, "now": now, "model_state_before": before, "real": r, "model": m})
        if r != m:
            break
    return steps, clock


def run_budget_history(scn):
    cfg = scn["cfg"]
    clock = SimClock(scn.get("base_us", 0))
    seams.bind(clock, None)
    real = Budget(max_retries=cfg["max"], window_s=cfg["window_us"] / 1e6)
    model = RefBudget(cfg["max"], cfg["window_us"])
    steps = []
    grants = []
    for op in scn["ops"]:
        name = op[0]
        if name == "adv":
            clock.advance(op[1])
            continue
        now = clock.mono_us - clock.base_us
        if name == "set_max":
            # the cap of a live budget is re-tuned (plain attribute)
            real.max_retries = op[1]
            model.max = op[1]
            continue
        if name == "consume":
            r = real.consume(op[1])
            m = model.consume(now, op[1])
            if r:
                grants.extend([(now, model.max)] * op[1])
        elif name == "remaining":
            r = real.remaining()
            m = model.remaining(now)
        else:
            raise AssertionError(op)
        steps.append({"op": op, "now": now, "real": r, "model": m})
        if r != m:
            break
    return steps, grants, clock
