#!/venv/bin/python
"""Soak: run every claimed check's thorough tier over a range of master seeds.
  tools/soak.py [first_seed] [n_seeds] [props,comma]   (use with `vp run --timeout ...`)
Prints one line per (seed, property); any VIOLATION / harness error is echoed in full."""
import json
import os
import subprocess
import sys
import time

VERIF = os.path.dirname(os.path.dirname(os.path.abspath(__file__)))
first = int(sys.argv[1]) if len(sys.argv) > 1 else 1
n = int(sys.argv[2]) if len(sys.argv) > 2 else 3
man = json.load(open(os.path.join(VERIF, "MANIFEST.json")))
props = sys.argv[3].split(",") if len(sys.argv) > 3 else [c["property_id"] for c in man["checks"]]
bad = 0
for seed in range(first, first + n):
    for p in props:
        t0 = time.time()
        r = subprocess.run(["/venv/bin/python", os.path.join(VERIF, "check.py"), p, "--tier", "thorough", "--seed", str(seed), "--no-evidence",
                            "--replay-dir", os.path.join(VERIF, "soak_replays")], capture_output=True, text=True)
        last = (r.stdout.strip().splitlines() or [""])[-1]
        print(f"seed={seed} {p} rc={r.returncode} {time.time() - t0:.0f}s {last[:200]}", flush=True)
        if r.returncode != 0:
            bad += 1
            print(r.stdout[-3000:], r.stderr[-2000:], flush=True)
print("soak done, non-zero exits:", bad)
sys.exit(1 if bad else 0)
