"""Behaviour-preserving (or statement-preserving) edits: NO check may raise an alarm on these.
Run with tools/mutants.py --benign .

Deliberately NOT in this list: computing the remaining time in float arithmetic
(deadline_s - (now - start)) instead of the pinned timedelta arithmetic.  On the
simulator's exact microsecond grid that changes the decision at elapsed ==
deadline exactly (remaining becomes 1e-17 instead of 0), which the checks do
report (C02 R4); exact boundary behaviour is part of what C02/C03 decide."""
ST = "src/redress/policy/state.py"
RH = "src/redress/policy/retry_helpers.py"
SC = "src/redress/policy/runner/sync_core.py"
AC = "src/redress/policy/runner/async_core.py"
CB = "src/redress/circuit.py"
BU = "src/redress/budget.py"

BENIGN = [
    {"id": "benign_extra_abort_poll_async_only",
     "edits": [(AC, "        attempt_state = AttemptState()\n\n        state.check_abort(attempt - 1)\n", "        attempt_state = AttemptState()\n\n        state.check_abort(attempt - 1)\n        state.check_abort(attempt - 1)\n")]},
    {"id": "benign_deadline_check_before_class_checks",
     "edits": [(ST, "        limit = self.policy.per_class_max_attempts.get(klass)\n        if limit is not None and self.per_class_counts[klass] > limit:",
                "        limit = self.policy.per_class_max_attempts.get(klass)\n        if self.elapsed() > self.policy.deadline:\n            self.last_stop_reason = StopReason.DEADLINE_EXCEEDED\n            self.emit(EventName.DEADLINE_EXCEEDED.value, attempt, 0.0, klass, exc, stop_reason=StopReason.DEADLINE_EXCEEDED, cause=cause)\n            return _RetryDecision(\"raise\")\n        if limit is not None and self.per_class_counts[klass] > limit:")]},
    {"id": "benign_log_before_metric",
     "edits": [(ST, "        if self.on_metric is not None:\n            try:\n                self.on_metric(event, attempt, sleep_s, tags)\n            except Exception:\n                pass\n\n        if self.on_log is not None:",
                "        if self.on_log is not None:\n            _fields = {\"attempt\": attempt, \"sleep_s\": sleep_s, **tags}\n            if event == EventName.RETRY.value and classification is not None and classification.retry_after_s is not None:\n                _fields[\"retry_after_s\"] = classification.retry_after_s\n            try:\n                self.on_log(event, _fields)\n            except Exception:\n                pass\n\n        if self.on_metric is not None:\n            try:\n                self.on_metric(event, attempt, sleep_s, tags)\n            except Exception:\n                pass\n\n        if False:")]},
    {"id": "benign_classification_copied",
     "edits": [(ST, "        classification = _normalize_classification(self.policy.classifier(exc))\n",
                "        classification = _normalize_classification(self.policy.classifier(exc))\n        classification = Classification(klass=classification.klass, retry_after_s=classification.retry_after_s, details=classification.details)\n")]},
    {"id": "benign_breaker_prunes_in_allow",
     "edits": [(CB, "        now = self._clock()\n        with self._lock:\n            if self._state is CircuitState.OPEN:\n                opened_at = self._opened_at",
                "        now = self._clock()\n        with self._lock:\n            self._prune(self._failures, now)\n            if self._state is CircuitState.OPEN:\n                opened_at = self._opened_at")]},
    {"id": "benign_sanitise_rewritten",
     "edits": [(ST, "        if not math.isfinite(sleep_s):\n            sleep_s = 0.0\n\n        sleep_s = max(0.0, sleep_s)\n        sleep_s = min(sleep_s, remaining_s)\n",
                "        sleep_s = min(remaining_s, sleep_s) if (math.isfinite(sleep_s) and sleep_s > 0.0) else 0.0\n")]},
    {"id": "benign_budget_prune_in_remaining_first",
     "edits": [(BU, "    def consume(self, cost: int = 1) -> bool:\n        if cost < 1:\n            raise ValueError(\"cost must be >= 1.\")\n        now = time.monotonic()\n        with self._lock:\n            self._prune(now)\n            if len(self._events) + cost > self.max_retries:\n                return False",
                "    def consume(self, cost: int = 1) -> bool:\n        if cost < 1:\n            raise ValueError(\"cost must be >= 1.\")\n        now = time.monotonic()\n        with self._lock:\n            self._prune(now)\n            free = self.max_retries - len(self._events)\n            if cost > free:\n                return False")]},
    {"id": "benign_attempt_end_hook_before_action_unchanged_terminal_attempt_number",
     "edits": [(RH, "        state.emit(\n            EventName.MAX_ATTEMPTS_EXCEEDED.value,\n            attempt,\n            0.0,\n            state.last_class,\n            exception,", "        state.emit(\n            EventName.MAX_ATTEMPTS_EXCEEDED.value,\n            state.policy.max_attempts,\n            0.0,\n            state.last_class,\n            exception,")]},
    {"id": "benign_record_cancel_helper_inlined",
     "edits": [("src/redress/policy/execution.py", "    if ctx.breaker is not None:\n        ctx.breaker.record_cancel()", "    breaker = ctx.breaker\n    if breaker is None:\n        return\n    breaker.record_cancel()")]},
    {"id": "benign_strategy_call_wrapped_reraise",
     "edits": [(ST, "        sleep_s = strategy(ctx)\n", "        try:\n            sleep_s = strategy(ctx)\n        except Exception:\n            raise\n")]},
    {"id": "benign_adaptive_failures_counted_by_list",
     "edits": [("src/redress/strategies.py", "            failures = sum(1 for _, success in self._events if not success)\n",
                "            failures = len([1 for _, ok in self._events if not ok])\n")]},
    {"id": "benign_execute_operation_flag_compared_by_identity",
     "edits": [(SC, "            if not in_operation:\n", "            if in_operation is False:\n"), (AC, "            if not in_operation:\n", "            if in_operation is False:\n")]},
    {"id": "benign_abort_answer_in_local",
     "edits": [(ST, "        if not self.abort_if():\n            return\n", "        requested = self.abort_if()\n        if not requested:\n            return\n")]},
    # sequentially behaviour-preserving: asks remaining() first and skips consume() when the window is full
    # (nothing can run between the two calls; the variant with the strategy call in between is in the mutant catalogue)
    {"id": "benign_remaining_probe_right_before_consume",
     "edits": [(ST, "        if self.policy.budget is not None and not self.policy.budget.consume():",
                "        if self.policy.budget is not None and (self.policy.budget.remaining() < 1 or not self.policy.budget.consume()):")]},
]
