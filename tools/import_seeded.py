#!/venv/bin/python
"""Copy sub-agent results <base>/<PROP>/_seeded/change<N>/ into /verif/seeded/<PROP>-<N+offset>/ with a meta.json.
  tools/import_seeded.py [base=/tmp/sa] [offset=0] [round=1]"""
import glob, json, os, shutil, sys
base = sys.argv[1] if len(sys.argv) > 1 else "/tmp/sa"
offset = int(sys.argv[2]) if len(sys.argv) > 2 else 0
rnd = sys.argv[3] if len(sys.argv) > 3 else "1"
for d in sorted(glob.glob(os.path.join(base, "C*/_seeded/change*"))):
    prop = d.split("/")[-3]
    n = int(d[-1]) + offset
    dst = os.path.join(os.path.dirname(os.path.dirname(os.path.abspath(__file__))), "seeded", f"{prop}-{n}")
    if os.path.exists(dst) or not os.path.exists(os.path.join(d, "patch.diff")) or not os.path.exists(os.path.join(d, "demo.py")):
        continue
    os.makedirs(dst)
    for f in ("patch.diff", "demo.py", "notes.md"):
        if os.path.exists(os.path.join(d, f)):
            shutil.copy(os.path.join(d, f), dst)
    json.dump({"properties": [prop], "round": rnd,
               "origin": "independent sub-agent given only the property text (round 2: plus the one-line titles of round-1 ideas to avoid) and a scratch worktree",
               "needs_to_manifest": "see notes.md", "demo": "demo.py",
               "verified_with": "tools/seeded.py (patch applies to a worktree of /repo HEAD; demo exit 0 clean / 1 changed; repository test-suite on the changed tree; quick checks with VERIF_REPO=<worktree>)"},
              open(os.path.join(dst, "meta.json"), "w"), indent=1)
    print("imported", dst)
