#!/venv/bin/python
"""Copy sub-agent results /tmp/sa/<PROP>/_seeded/change<N>/ into /verif/seeded/<PROP>-<N>/ with a meta.json."""
import glob, json, os, shutil, sys
for d in sorted(glob.glob("/tmp/sa/C*/_seeded/change*")):
    prop = d.split("/")[3]
    n = d[-1]
    dst = f"/verif/seeded/{prop}-{n}"
    if os.path.exists(dst) or not os.path.exists(os.path.join(d, "patch.diff")):
        continue
    os.makedirs(dst)
    for f in ("patch.diff", "demo.py", "notes.md"):
        if os.path.exists(os.path.join(d, f)):
            shutil.copy(os.path.join(d, f), dst)
    notes = open(os.path.join(dst, "notes.md")).read() if os.path.exists(os.path.join(dst, "notes.md")) else ""
    json.dump({"properties": [prop], "origin": "independent sub-agent given only the property text and a scratch worktree",
               "needs_to_manifest": "see notes.md", "demo": "demo.py",
               "verified_with": "tools/seeded.py (patch applies to a worktree of /repo HEAD; demo exit 0 clean / 1 changed; repository test-suite on the changed tree; quick checks with VERIF_REPO=<worktree>)"},
              open(os.path.join(dst, "meta.json"), "w"), indent=1)
    print("imported", dst)
