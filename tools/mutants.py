#!/venv/bin/python
"""Sensitivity self-test: realistic single-edit mutants of redress, each applied to a
scratch copy of /repo/src (removed afterwards); the property's check, pointed at
the copy with VERIF_REPO, must report a VIOLATION.

  tools/mutants.py [--only ID[,ID]] [--prop C03] [--tests] [--count N] [--jobs J]

--tests additionally runs the repository's own test-suite on the mutant (a
mutant only counts when the 225 tests still pass).
"""
from __future__ import annotations

import argparse
import json
import os
import shutil
import subprocess
import sys
import tempfile

HERE = os.path.dirname(os.path.abspath(__file__))
VERIF = os.path.dirname(HERE)
sys.path.insert(0, HERE)
from mutant_catalogue import MUTANTS  # noqa: E402


def apply(root, m):
    for (rel, old, new) in m["edits"]:
        p = os.path.join(root, rel)
        s = open(p).read()
        if s.count(old) < 1:
            raise LookupError(f"mutant {m['id']}: pattern not found in {rel}: {old[:60]!r}")
        s = s.replace(old, new, m.get("count", 1))
        open(p, "w").write(s)


def main():
    ap = argparse.ArgumentParser()
    ap.add_argument("--only")
    ap.add_argument("--prop")
    ap.add_argument("--tests", action="store_true")
    ap.add_argument("--count", type=int, default=0)
    ap.add_argument("--jobs", type=int, default=8)
    ap.add_argument("--json")
    ap.add_argument("--benign", action="store_true", help="run EVERY claimed check on the behaviour-preserving catalogue: no alarm allowed")
    args = ap.parse_args()
    only = set(args.only.split(",")) if args.only else None
    results = []
    kept = []
    if args.json and (only or args.prop) and os.path.exists(args.json):
        # partial run: keep the rows of the mutants / properties not being re-run
        try:
            kept = [r for r in json.load(open(args.json))
                    if not ((only is None or r["mutant"] in only) and (args.prop is None or r["prop"] == args.prop))]
        except Exception:
            kept = []
    catalogue = MUTANTS
    if args.benign:
        from benign_catalogue import BENIGN
        allp = [c["property_id"] for c in json.load(open(os.path.join(VERIF, "MANIFEST.json")))["checks"]]
        catalogue = [dict(m, props=allp) for m in BENIGN]
    for m in catalogue:
        if only and m["id"] not in only:
            continue
        if args.prop and args.prop not in m["props"]:
            continue
        tmp = tempfile.mkdtemp(prefix="redress_mut_")
        try:
            shutil.copytree("/repo/src", os.path.join(tmp, "src"))
            if args.tests:
                shutil.copytree("/repo/tests", os.path.join(tmp, "tests"))
                shutil.copy("/repo/pyproject.toml", tmp)
            try:
                apply(tmp, m)
            except LookupError as exc:
                # the catalogue entry no longer matches the source (e.g. after a fix commit): report, do not stop the sweep
                print(f"HARNESS-ERR {m['id']:34s} edit does not apply: {exc}", flush=True)
                for prop in m["props"]:
                    results.append({"mutant": m["id"], "prop": prop, "caught": False, "rc": None, "rules": [], "tests_pass": None, "error": "edit does not apply"})
                continue
            tests_ok = None
            if args.tests:
                env = dict(os.environ, PYTHONPATH=os.path.join(tmp, "src"))
                try:
                    r = subprocess.run(["/venv/bin/python", "-m", "pytest", "-q", "-p", "no:cacheprovider", "-x", "--no-cov", "--timeout=120",
                                        "-o", "addopts=", "tests"], cwd=tmp, env=env, capture_output=True, text=True, timeout=600)
                    tests_ok = r.returncode == 0
                except subprocess.TimeoutExpired:
                    tests_ok = False   # e.g. a mutant that deadlocks the suite
            for prop in m["props"]:
                if args.prop and prop != args.prop:
                    continue
                env = dict(os.environ, VERIF_REPO=tmp)
                rd = os.path.join(tmp, "replays")
                cmd = ["/venv/bin/python", os.path.join(VERIF, "check.py"), prop, "--no-evidence", "--no-shrink", "--replay-dir", rd,
                       "--jobs", str(args.jobs)]
                if args.count:
                    cmd += ["--count", str(args.count)]
                r = subprocess.run(cmd, env=env, capture_output=True, text=True, timeout=1200)
                caught = r.returncode == 1 and "VIOLATION property=" + prop in r.stdout
                rules = sorted({ln.split("rule=")[1].split(" ")[0] for ln in r.stdout.splitlines() if ln.startswith("violation rule=")})
                results.append({"mutant": m["id"], "prop": prop, "caught": caught, "rc": r.returncode, "rules": rules, "tests_pass": tests_ok})
                flag = "CAUGHT" if caught else ("HARNESS-ERR" if r.returncode not in (0, 1) else "MISSED")
                if args.benign:
                    flag = "FALSE-ALARM" if caught else ("HARNESS-ERR" if r.returncode not in (0, 1) else "quiet")
                print(f"{flag:11s} {m['id']:34s} {prop} rules={','.join(rules)} tests_pass={tests_ok}", flush=True)
                if r.returncode not in (0, 1):
                    print(r.stdout[-1500:], r.stderr[-1500:])
                if args.json:
                    json.dump(kept + results, open(args.json, "w"), indent=1)
        finally:
            shutil.rmtree(tmp, ignore_errors=True)
    if args.json:
        json.dump(kept + results, open(args.json, "w"), indent=1)
    missed = [r for r in results if not r["caught"]]
    if args.benign:
        alarms = [r for r in results if r["caught"] or r["rc"] not in (0, 1)]
        print(f"{len(alarms)} alarms on {len(results)} (benign edit, check) pairs")
        return 1 if alarms else 0
    print(f"{len(results) - len(missed)}/{len(results)} caught")
    return 1 if missed else 0


if __name__ == "__main__":
    sys.exit(main())
