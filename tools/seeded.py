#!/venv/bin/python
"""Run the checks against the seeded changes kept under /verif/seeded/<id>/.

Each change is applied to a scratch copy of /repo/src (never to /repo), the
demonstration is run with and without it, the repository's own test-suite is
run on the changed copy, and the quick checks of the listed properties (default:
the property it was written against; --all-props: every claimed property) are
pointed at the copy with VERIF_REPO.  Results go to seeded/<id>/result.json.

  tools/seeded.py [--only id,id] [--all-props] [--no-tests] [--jobs J]
"""
import argparse
import glob
import json
import os
import shutil
import subprocess
import sys
import tempfile

VERIF = os.path.dirname(os.path.dirname(os.path.abspath(__file__)))
PY = "/venv/bin/python"


def sh(cmd, **kw):
    return subprocess.run(cmd, capture_output=True, text=True, **kw)


def main():
    ap = argparse.ArgumentParser()
    ap.add_argument("--only")
    ap.add_argument("--all-props", action="store_true")
    ap.add_argument("--no-tests", action="store_true")
    ap.add_argument("--jobs", type=int, default=16)
    ap.add_argument("--tier", default="quick")
    ap.add_argument("--budget", type=float, default=0.0, help="wall-clock cap per check (seconds)")
    args = ap.parse_args()
    only = set(args.only.split(",")) if args.only else None
    man = json.load(open(os.path.join(VERIF, "MANIFEST.json")))
    claimed = [c["property_id"] for c in man["checks"]]
    rows = []
    for d in sorted(glob.glob(os.path.join(VERIF, "seeded", "*"))):
        sid = os.path.basename(d)
        if only and sid not in only:
            continue
        meta = json.load(open(os.path.join(d, "meta.json")))
        tmp = tempfile.mkdtemp(prefix="seeded_")
        try:
            sh(["git", "-C", "/repo", "worktree", "add", "--detach", "-q", os.path.join(tmp, "wt"), "HEAD"])
            wt = os.path.join(tmp, "wt")
            env = dict(os.environ, PYTHONPATH=os.path.join(wt, "src"))
            demo = os.path.join(d, meta.get("demo", "demo.py"))
            clean = sh([PY, demo], env=env, cwd=wt, timeout=600).returncode
            ap_ = sh(["git", "-C", wt, "apply", os.path.join(d, "patch.diff")])
            if ap_.returncode != 0:
                print(f"{sid}: patch does not apply: {ap_.stderr[:300]}")
                rows.append({"id": sid, "error": "patch does not apply"})
                continue
            broken = sh([PY, demo], env=env, cwd=wt, timeout=600).returncode
            tests = None
            if not args.no_tests:
                t = sh([PY, "-m", "pytest", "-q", "-p", "no:cacheprovider", "-o", "addopts=", "tests"], env=env, cwd=wt, timeout=1200)
                tests = t.returncode == 0
            props = claimed if args.all_props else meta["properties"]
            det = {}
            for p in props:
                e2 = dict(os.environ, VERIF_REPO=wt)
                r = sh([PY, os.path.join(VERIF, "check.py"), p, "--tier", args.tier, "--no-evidence", "--no-shrink", "--replay-dir", os.path.join(tmp, "rp"), "--jobs", str(args.jobs)] + (["--budget", str(args.budget)] if args.budget else []),
                       env=e2, timeout=3000)
                rules = sorted({ln.split("rule=")[1].split(" ")[0] for ln in r.stdout.splitlines() if ln.startswith("violation rule=")})
                det[p] = {"rc": r.returncode, "detected": r.returncode == 1 and f"VIOLATION property={p}" in r.stdout, "rules": rules}
                if r.returncode not in (0, 1):
                    det[p]["tail"] = (r.stdout + r.stderr)[-600:]
            row = {"id": sid, "demo_clean_exit": clean, "demo_changed_exit": broken, "tests_pass_with_change": tests, "checks": det}
            rows.append(row)
            rp = os.path.join(d, "result.json")
            if os.path.exists(rp):   # merge with earlier runs (other properties / test-suite result)
                old = json.load(open(rp))
                merged = dict(old.get("checks", {}))
                merged.update(det)
                row = dict(row, checks=merged)
                if row["tests_pass_with_change"] is None:
                    row["tests_pass_with_change"] = old.get("tests_pass_with_change")
            json.dump(row, open(rp, "w"), indent=1)
            own = [p for p in meta["properties"] if det.get(p, {}).get("detected")]
            others = [p for p in det if det[p]["detected"] and p not in meta["properties"]]
            print(f"{sid:28s} demo clean/changed={clean}/{broken} tests_pass={tests} detected_by_own={own or 'NONE'} also={others}", flush=True)
        finally:
            sh(["git", "-C", "/repo", "worktree", "remove", "--force", os.path.join(tmp, "wt")])
            shutil.rmtree(tmp, ignore_errors=True)
    missed = [r["id"] for r in rows if "checks" in r and not any(v["detected"] for v in r["checks"].values())]
    print(f"{len(rows) - len(missed)}/{len(rows)} detected; missed: {missed}")


if __name__ == "__main__":
    main()
