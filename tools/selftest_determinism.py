#!/venv/bin/python
"""Determinism proof: for every property, the same VERIF_SEED values are executed
  run A: 16 workers, PYTHONHASHSEED=0
  run B:  3 workers, PYTHONHASHSEED=0   (different process layout / worker count)
  run C: 16 workers, PYTHONHASHSEED=12345 (fresh interpreter, other hash seed)
and the per-seed trace digests must be identical.

  tools/selftest_determinism.py [--count N] [--props C01,C07] [--seed S]
"""
import argparse
import os
import shutil
import subprocess
import sys
import tempfile

HERE = os.path.dirname(os.path.abspath(__file__))
VERIF = os.path.dirname(HERE)
sys.path.insert(0, VERIF)


def run(prop, count, seed, jobs, hashseed, out):
    env = dict(os.environ, VERIF_HASHSEED=str(hashseed), PYTHONHASHSEED=str(hashseed))
    rp = tempfile.mkdtemp(prefix="rp_det_")
    try:
        r = subprocess.run(["/venv/bin/python", os.path.join(VERIF, "check.py"), prop, "--count", str(count), "--seed", str(seed), "--jobs", str(jobs),
                            "--no-evidence", "--dump-digests", out, "--replay-dir", rp],
                           env=env, capture_output=True, text=True, timeout=1800)
    finally:
        shutil.rmtree(rp, ignore_errors=True)
    if r.returncode not in (0, 1):
        print(r.stdout[-2000:], r.stderr[-2000:])
        raise SystemExit(f"{prop}: harness error rc={r.returncode}")
    return open(out).read().splitlines()


def main():
    ap = argparse.ArgumentParser()
    ap.add_argument("--count", type=int, default=2000)
    ap.add_argument("--props")
    ap.add_argument("--seed", type=int, default=7)
    args = ap.parse_args()
    from vsim import props as P
    ids = args.props.split(",") if args.props else P.ALL
    bad = 0
    tmp = tempfile.mkdtemp(prefix="det_")
    for pid in ids:
        n = args.count if pid not in ("C08", "C12", "C13", "C15", "C17", "C18") else max(200, args.count // 5)
        a = run(pid, n, args.seed, 16, 0, os.path.join(tmp, f"{pid}.a"))
        b = run(pid, n, args.seed, 3, 0, os.path.join(tmp, f"{pid}.b"))
        c = run(pid, n, args.seed, 16, 12345, os.path.join(tmp, f"{pid}.c"))
        diff_ab = sum(1 for x, y in zip(a, b) if x != y) + abs(len(a) - len(b))
        diff_ac = sum(1 for x, y in zip(a, c) if x != y) + abs(len(a) - len(c))
        ok = diff_ab == 0 and diff_ac == 0 and len(a) == n
        print(f"{'ok ' if ok else 'BAD'} {pid}: seeds={len(a)} diverging(16w vs 3w)={diff_ab} diverging(hashseed 0 vs 12345)={diff_ac}", flush=True)
        if not ok:
            bad += 1
            for x, y in zip(a, c):
                if x != y:
                    print("   first divergence:", x, "|", y)
                    break
    shutil.rmtree(tmp, ignore_errors=True)
    return 1 if bad else 0


if __name__ == "__main__":
    sys.exit(main())
