#!/venv/bin/python
"""Replay every file under /verif/regress (violations of *fixed* findings, minimised
on the pinned tree): each must NOT reproduce on the current tree.
With --expect-fail (and VERIF_REPO pointing at the pinned tree) each MUST reproduce."""
import glob
import os
import subprocess
import sys

HERE = os.path.dirname(os.path.abspath(__file__))
VERIF = os.path.dirname(HERE)
expect_fail = "--expect-fail" in sys.argv
bad = 0
for f in sorted(glob.glob(os.path.join(VERIF, "regress", "*.json"))):
    prop = os.path.basename(f).split("-")[1]
    r = subprocess.run(["/venv/bin/python", os.path.join(VERIF, "check.py"), prop, "--replay", f], capture_output=True, text=True, timeout=600)
    rep = "reproduced=yes" in r.stdout
    ok = rep == expect_fail
    print(("ok  " if ok else "BAD ") + os.path.basename(f), "reproduced=" + ("yes" if rep else "no"))
    bad += not ok
sys.exit(1 if bad else 0)
