#!/venv/bin/python
"""Replay every file under /verif/regress (violations of *fixed* findings, minimised
on the pinned tree): each must NOT reproduce on the current tree.
With --expect-fail (and VERIF_REPO pointing at the pinned tree) each MUST reproduce."""
import glob
import os
import subprocess
import sys

HERE = os.path.dirname(os.path.abspath(__file__))
VERIF = os.path.dirname(HERE)
import json
expect_fail = "--expect-fail" in sys.argv
expect = json.load(open(os.path.join(VERIF, "regress", "EXPECT.json")))
# with --expect-fail, VERIF_TREE names the tree VERIF_REPO points at ('pinned' by default)
tree = os.environ.get("VERIF_TREE", "pinned")
bad = 0
for f in sorted(glob.glob(os.path.join(VERIF, "regress", "F*.json"))):
    prop = os.path.basename(f).split("-")[1]
    if expect_fail and expect.get(os.path.basename(f), "pinned") != tree:
        print("skip " + os.path.basename(f), f"(defect present at {expect.get(os.path.basename(f), 'pinned')}, not on tree '{tree}')")
        continue
    r = subprocess.run(["/venv/bin/python", os.path.join(VERIF, "check.py"), prop, "--replay", f], capture_output=True, text=True, timeout=600)
    rep = "reproduced=yes" in r.stdout
    ok = rep == expect_fail
    print(("ok  " if ok else "BAD ") + os.path.basename(f), "reproduced=" + ("yes" if rep else "no"))
    bad += not ok
sys.exit(1 if bad else 0)
