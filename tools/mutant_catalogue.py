"""Realistic single-edit mutants (the 'Catches' lines of DESIGN §6)."""
ST = "src/redress/policy/state.py"
RH = "src/redress/policy/retry_helpers.py"
SC = "src/redress/policy/runner/sync_core.py"
AC = "src/redress/policy/runner/async_core.py"
LG = "src/redress/policy/runner/logic.py"

MUTANTS = [
    # ---- C01
    {"id": "c01_per_class_off_by_one", "props": ["C01", "C03"],
     "edits": [(ST, "self.per_class_counts[klass] > limit", "self.per_class_counts[klass] > limit + 1")]},
    {"id": "c01_unknown_off_by_one", "props": ["C01", "C03"],
     "edits": [(ST, "self.unknown_attempts > self.policy.max_unknown_attempts", "self.unknown_attempts > self.policy.max_unknown_attempts + 1")]},
    {"id": "c01_range_plus_one_async", "props": ["C01"],
     "edits": [(AC, "for attempt in range(1, policy.max_attempts + 1):", "for attempt in range(1, policy.max_attempts + 2):")], "count": 2},
    {"id": "c01_auth_retryable", "props": ["C01", "C03"],
     "edits": [(ST, "if klass in (ErrorClass.PERMANENT, ErrorClass.AUTH, ErrorClass.PERMISSION):", "if klass in (ErrorClass.PERMANENT, ErrorClass.PERMISSION):")]},
    {"id": "c01_counts_on_policy", "props": ["C01"],
     "edits": [(ST, "self.per_class_counts: dict[ErrorClass, int] = collections.defaultdict(int)",
                "self.per_class_counts = policy.__dict__.setdefault('_pcc', collections.defaultdict(int))")]},
    {"id": "c01_cap_exception_only", "props": ["C01", "C03"],
     "edits": [(ST, "if limit is not None and self.per_class_counts[klass] > limit:", "if limit is not None and cause == \"exception\" and self.per_class_counts[klass] > limit:")]},
    # ---- C02
    {"id": "c02_clamp_removed", "props": ["C02", "C05"],
     "edits": [(ST, "        sleep_s = min(sleep_s, remaining_s)\n", "")]},
    {"id": "c02_post_sleep_check_removed", "props": ["C02", "C03"],
     "edits": [(RH, "    if state.elapsed() > state.policy.deadline:\n        state.last_stop_reason = StopReason.DEADLINE_EXCEEDED", "    if False:\n        state.last_stop_reason = StopReason.DEADLINE_EXCEEDED")]},
    {"id": "c02_remaining_lt", "props": ["C02", "C03"],
     "edits": [(ST, "if remaining_s <= 0:", "if remaining_s < 0:")]},
    {"id": "c02_wall_clock", "props": ["C02"],
     "edits": [(ST, "return timedelta(seconds=time.monotonic() - self.start_mono)", "return timedelta(seconds=time.time() - self.start_wall)"),
               (ST, "self.start_mono = time.monotonic()", "self.start_mono = time.monotonic()\n        self.start_wall = time.time()")]},
    {"id": "c02_remaining_from_start", "props": ["C02", "C05"],
     "edits": [(ST, "remaining = self.policy.deadline - self.elapsed()\n", "remaining = self.policy.deadline if self.prev_sleep is not None else self.policy.deadline - self.elapsed()\n")]},
    # ---- C03
    {"id": "c03_budget_before_checks", "props": ["C03"],
     "edits": [(ST, "        strategy = self.policy._select_strategy(klass)\n        if strategy is None:",
                "        if self.policy.budget is not None:\n            self.policy.budget.consume()\n        strategy = self.policy._select_strategy(klass)\n        if strategy is None:")]},
    {"id": "c03_budget_not_asked", "props": ["C03", "C10"],
     "edits": [(ST, "if self.policy.budget is not None and not self.policy.budget.consume():", "if self.policy.budget is not None and attempt > 1 and not self.policy.budget.consume():")]},
    {"id": "c03_final_attempt_backoff", "props": ["C03"],
     "edits": [(ST, "if attempt >= self.policy.max_attempts:", "if False:")]},
    {"id": "c03_deadline_gt_to_ge_finalize", "props": ["C03"],
     "edits": [(RH, "    if state.elapsed() > state.policy.deadline:\n        state.last_stop_reason", "    if state.elapsed() >= state.policy.deadline:\n        state.last_stop_reason")]},
    {"id": "c03_wrong_reason_unknown", "props": ["C03", "C14"],
     "edits": [(ST, "self.last_stop_reason = StopReason.MAX_UNKNOWN_ATTEMPTS", "self.last_stop_reason = StopReason.MAX_ATTEMPTS_PER_CLASS")]},
]
