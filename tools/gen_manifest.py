#!/venv/bin/python
"""Regenerate /verif/MANIFEST.json from the property modules that exist."""
from __future__ import annotations

import json
import os
import sys

HERE = os.path.dirname(os.path.abspath(__file__))
VERIF = os.path.dirname(HERE)
sys.path.insert(0, VERIF)
os.environ.setdefault("PYTHONHASHSEED", "0")
from vsim import bootstrap  # noqa: E402

bootstrap.setup(reexec=False)
from vsim import props  # noqa: E402

PY = "/venv/bin/python"
NA = {
    "C19": "pure functions of one exception object: no clock, schedule, randomness, I/O, second party or history for a "
           "simulator to own; checking it would be input generation dressed as simulation (DESIGN.md section 7)",
}
TECH = {
    "exploration": "deterministic simulation: seeded scenario + fault search over the real library on a virtual clock / SimLoop, trace oracles",
    "fault_enumeration": "deterministic simulation with exhaustive fault-point enumeration per seeded scenario (cancel at every await, raise at every callback invocation), trace oracles",
}


def main():
    checks = []
    na = []
    ids = [json.loads(l)["id"] for l in open(os.path.join(VERIF, "properties.jsonl"))]
    for pid in ids:
        if pid in NA:
            na.append({"property_id": pid, "reason": NA[pid]})
            continue
        try:
            p = props.load(pid)
        except ModuleNotFoundError:
            na.append({"property_id": pid, "reason": "check not built yet (work in progress; will be claimed with deterministic simulation, see DESIGN.md section 6)"})
            continue
        checks.append({
            "property_id": pid,
            "quick_cmd": f"timeout 600 {PY} check.py {pid} --tier quick",
            "thorough_cmd": f"timeout 1500 {PY} check.py {pid} --tier thorough",
            "evidence_file": f"/verif/evidence/{pid}.json",
            "replay_cmd_template": f"{PY} check.py {pid} --replay {{path}}",
            "engine": "vsim",
            "level_claimed": {"category": p.LEVEL, "text": getattr(p, "LEVEL_TEXT", p.RULE), "design_ref": f"DESIGN.md section 6 ({pid})"},
            "level_note": "; ".join(getattr(p, "ASSUMPTIONS", [])) + "; trusted: CPython, asyncio internals, the oracle/reference-model code under /verif/vsim",
            "technique": getattr(p, "TECHNIQUE", TECH[p.LEVEL]),
        })
    man = {
        "version": 1,
        "setup_cmd": f"{PY} -c \"import sys; sys.path.insert(0,'/verif'); import vsim.runner, hypothesis\" && mkdir -p /verif/evidence /verif/replays",
        "hooks": {
            "guard": "REDRESS_VERIF",
            "enable": "no source hook exists: every seam is a module global or an explicit clock= parameter patched from outside (DESIGN.md section 2); checks import the working tree from $VERIF_REPO/src (default /repo/src)",
            "baseline_off_cmd": "cd /repo && /venv/bin/python -m pytest -ra -q -p no:cacheprovider --timeout=900 --continue-on-collection-errors",
            "source_commits": [],
            "add_only": True,
        },
        "engines": [{"name": "vsim", "path": "/verif/vsim", "serves_properties": [c["property_id"] for c in checks],
                     "kind_free_text": "deterministic simulator: SimClock + TimeShim seams, SimLoop (virtual-time asyncio loop with seeded ready order), scripted Environment with fault injector, baton-passing thread scheduler, reference models, JSON shrinker + replay"}],
        "checks": checks,
        "not_applicable": na,
        "notes": "All checks: cwd=/verif, interpreter /venv/bin/python, VERIF_SEED/VERIF_TIER honoured, re-exec with PYTHONHASHSEED=0; exit 2/3 = timeout/harness error. Known findings: /verif/known_findings.json.",
    }
    with open(os.path.join(VERIF, "MANIFEST.json"), "w") as f:
        json.dump(man, f, indent=1)
    print(f"claimed={len(checks)} not_applicable={len(na)}")


if __name__ == "__main__":
    main()
