#!/venv/bin/python
"""Fill section 14 of DESIGN.md from reports/mutants.json and seeded/*/result.json."""
import glob
import json
import os
import re
import sys

VERIF = os.path.dirname(os.path.dirname(os.path.abspath(__file__)))
sys.path.insert(0, os.path.join(VERIF, "tools"))
from mutant_catalogue import MUTANTS  # noqa: E402

BEGIN_M, END_M = "<!-- MUTANT_TABLE_BEGIN -->", "<!-- MUTANT_TABLE_END -->"
BEGIN_S, END_S = "<!-- SEEDED_TABLE_BEGIN -->", "<!-- SEEDED_TABLE_END -->"


def mutant_table():
    path = os.path.join(VERIF, "reports", "mutants.json")
    res = json.load(open(path)) if os.path.exists(path) else []
    by = {}
    for r in res:
        by.setdefault(r["mutant"], {})[r["prop"]] = r
    lines = ["| mutant | files | caught by (rules) | repo tests still pass |", "|---|---|---|---|"]
    n_ok = n = 0
    for m in MUTANTS:
        files = ", ".join(sorted({e[0].replace("src/redress/", "") for e in m["edits"]}))
        cells = []
        tp = None
        for p in m["props"]:
            r = by.get(m["id"], {}).get(p)
            n += 1
            if r is None:
                cells.append(f"{p}: not run")
            elif r["caught"]:
                n_ok += 1
                cells.append(f"{p} ({','.join(r['rules'])})")
            else:
                cells.append(f"**{p}: MISSED**")
            if r is not None and r.get("tests_pass") is not None:
                tp = r["tests_pass"]
        lines.append(f"| `{m['id']}` | {files} | {'; '.join(cells)} | {'yes' if tp else ('no' if tp is False else 'n/a')} |")
    lines.append("")
    lines.append(f"{n_ok}/{n} (mutant, property) pairs caught.")
    return "\n".join(lines)


def seeded_table():
    lines = ["| id | written against | what it changes (from the author's notes) | demo clean/changed | tests pass with change | detected by |", "|---|---|---|---|---|---|"]
    tot = det = 0
    for d in sorted(glob.glob(os.path.join(VERIF, "seeded", "*"))):
        sid = os.path.basename(d)
        meta = json.load(open(os.path.join(d, "meta.json")))
        rp = os.path.join(d, "result.json")
        notes = open(os.path.join(d, "notes.md")).read() if os.path.exists(os.path.join(d, "notes.md")) else ""
        title = next((ln.strip("# ").strip() for ln in notes.splitlines() if ln.strip().startswith("#")), "")
        title = re.sub(r"^C\d+\s*[/,-]?\s*(seeded\s*)?change\s*\d\s*[-:—–]*\s*", "", title, flags=re.I)[:150]
        if not os.path.exists(rp):
            lines.append(f"| {sid} | {','.join(meta['properties'])} | {title} | not run | | |")
            continue
        r = json.load(open(rp))
        tot += 1
        who = [f"{p} ({','.join(v['rules'])})" for p, v in sorted(r["checks"].items()) if v["detected"]]
        det += bool(who)
        lines.append(f"| {sid} | {','.join(meta['properties'])} | {title} | {r['demo_clean_exit']}/{r['demo_changed_exit']} | "
                     f"{ {True: 'yes', False: 'NO', None: 'see meta'}[r.get('tests_pass_with_change')] } | {'; '.join(who) or '**none**'} |")
    lines.append("")
    lines.append(f"{det}/{tot} seeded changes detected by at least one quick check.")
    return "\n".join(lines)


def main():
    p = os.path.join(VERIF, "DESIGN.md")
    s = open(p).read()
    s = s.replace("MUTANT_TABLE_PLACEHOLDER", BEGIN_M + "\n" + END_M).replace("SEEDED_TABLE_PLACEHOLDER", BEGIN_S + "\n" + END_S)
    for b, e, fn in ((BEGIN_M, END_M, mutant_table), (BEGIN_S, END_S, seeded_table)):
        i, j = s.index(b), s.index(e)
        s = s[:i] + b + "\n" + fn() + "\n" + s[j:]
    open(p, "w").write(s)


if __name__ == "__main__":
    main()
