#!/venv/bin/python
"""Run every claimed check (quick or thorough) and validate the evidence files."""
import json
import os
import subprocess
import sys
import time

VERIF = os.path.dirname(os.path.dirname(os.path.abspath(__file__)))
tier = sys.argv[1] if len(sys.argv) > 1 else "quick"
man = json.load(open(os.path.join(VERIF, "MANIFEST.json")))
bad = 0
for c in man["checks"]:
    cmd = c["quick_cmd"] if tier == "quick" else c["thorough_cmd"]
    t0 = time.time()
    r = subprocess.run(cmd, shell=True, cwd=VERIF, capture_output=True, text=True, env=dict(os.environ, VERIF_TIER=tier))
    last = (r.stdout.strip().splitlines() or [""])[-1]
    print(f"{c['property_id']} rc={r.returncode} {time.time() - t0:.1f}s {last[:220]}", flush=True)
    if r.returncode != 0:
        bad += 1
        print(r.stdout[-1500:], r.stderr[-1500:])
sys.exit(1 if bad else 0)
