#!/venv/bin/python
"""Entry point of the verification machinery.

  check.py <ID> [--tier quick|thorough] [--seed N] [--jobs J] [--count N] [--budget S]
  check.py <ID> --replay <file>

exit 0  property held on everything explored (KNOWN-FINDING lines possible)
exit 1  + `VIOLATION property=<id> replay=<path>` : unlisted violation
exit 2  timeout      exit 3  harness error (never a pass, never a VIOLATION)
"""
from __future__ import annotations

import argparse
import json
import os
import sys

HERE = os.path.dirname(os.path.abspath(__file__))
sys.path.insert(0, HERE)

from vsim import bootstrap  # noqa: E402


def main() -> int:
    ap = argparse.ArgumentParser()
    ap.add_argument("prop")
    ap.add_argument("--tier", default=os.environ.get("VERIF_TIER", "quick"), choices=["quick", "thorough"])
    ap.add_argument("--seed", type=int, default=int(os.environ.get("VERIF_SEED", "0") or 0))
    ap.add_argument("--jobs", type=int, default=int(os.environ.get("VERIF_JOBS", "0") or 0))
    ap.add_argument("--count", type=int, default=0)
    ap.add_argument("--budget", type=float, default=0.0)
    ap.add_argument("--replay")
    ap.add_argument("--no-evidence", action="store_true")
    ap.add_argument("--replay-dir")
    ap.add_argument("--dump-digests", help="write per-seed trace digests (determinism self-test)")
    ap.add_argument("--no-shrink", action="store_true", help="report violations without minimising them (sensitivity sweeps)")
    args = ap.parse_args()
    bootstrap.setup()

    from vsim import props, runner, seams, shrink

    prop_id = args.prop.upper()
    prop = props.load(prop_id)
    seams.install()

    if args.replay:
        with open(args.replay) as f:
            rp = json.load(f)
        res = prop.execute(rp["scenario"])
        hits = [v for v in res["violations"] if v["rule"] == rp["rule"] and v["sig"] == rp["signature"]]
        print(f"replay property={prop_id} rule={rp['rule']} signature={rp['signature']!r} "
              f"reproduced={'yes' if hits else 'no'} trace_digest={res.get('digest')}")
        for v in res["violations"][:10]:
            print(f"  violation rule={v['rule']} sig={v['sig']!r} detail={json.dumps(v['detail'], default=repr)[:600]}")
        if hits:
            known = runner.match_known(runner.load_known(), prop_id, rp["rule"], rp["signature"])
            if known:
                print(f"KNOWN-FINDING: property={prop_id} {known['what']}")
                return 0
            print(f"VIOLATION property={prop_id} replay={args.replay}")
            return 1
        return 0

    jobs = args.jobs or min(16, os.cpu_count() or 1)
    count, budget = prop.BUDGETS[args.tier]
    count = args.count or count
    budget = args.budget or budget
    st = runner.run_parallel(prop_id, args.seed, count, args.tier, jobs, budget)
    if st.errors:
        for e in st.errors[:5]:
            print("HARNESS-ERROR:", e)
        return 3
    if st.evaluations == 0:
        print("HARNESS-ERROR: nothing was evaluated")
        return 3

    if args.dump_digests:
        with open(args.dump_digests, "w") as f:
            for i, d in sorted(st.per_seed):
                f.write(f"{i} {d}\n")
    known = runner.load_known()
    groups = {}
    for (seed, i, rule, sig, detail, scn) in sorted(st.violations, key=lambda x: x[1]):
        groups.setdefault((rule, sig), (seed, i, detail, scn))
    unlisted = 0
    known_lines = []
    for (rule, sig), (seed, i, detail, scn) in sorted(groups.items()):
        k = runner.match_known(known, prop_id, rule, sig)

        def still(c, rule=rule, sig=sig):
            r = prop.execute(c)
            return any(v["rule"] == rule and v["sig"] == sig for v in r["violations"])

        small, n = (scn, 0)
        shrunk_groups = sum(1 for _ in ())
        if args.no_shrink:
            pass
        elif (k is None and unlisted < 8) or (k is not None and len(groups) <= 12):
            small, n = shrink.shrink(scn, still, cap=getattr(prop, "SHRINK_CAP", 400))
        r = prop.execute(small)
        hit = [v for v in r["violations"] if v["rule"] == rule and v["sig"] == sig]
        det = hit[0]["detail"] if hit else detail
        if r.get("schedule"):
            small = dict(small)
            small["schedule"] = r["schedule"]
        if k is not None:
            line = f"KNOWN-FINDING: property={prop_id} {k['what']} [rule={rule} sig={sig!r} seed={seed}]"
            print(line)
            known_lines.append(line)
            continue
        path = runner.write_replay(prop_id, rule, sig, seed, small, det, args.replay_dir)
        unlisted += 1
        print(f"violation rule={rule} sig={sig!r} seed={seed} shrunk_in={n} detail={json.dumps(det, default=repr)[:500]}")
        print(f"VIOLATION property={prop_id} replay={path}")
    if not args.no_evidence:
        runner.write_evidence(prop, args.tier, args.seed, st, prop.LEVEL, n_viol=unlisted, known_lines=known_lines)
    print(f"{prop_id} tier={args.tier} seed={args.seed} evaluations={st.evaluations} runs={st.runs} "
          f"distinct_nontrivial={len(st.nontrivial_shapes)} sim_s={st.sim_us/1e6:.0f} wall_s={st.wall_s:.1f} "
          f"violating_scenarios={st.n_violating} unlisted_groups={unlisted} known={len(known_lines)} digest={st.trace_digest[:16]}")
    return 1 if unlisted else 0


if __name__ == "__main__":
    try:
        rc = main()
    except SystemExit:
        raise
    except TimeoutError as exc:   # a worker did not come back in time: never a pass, never a VIOLATION
        print(f"HARNESS-TIMEOUT: {exc!r}", flush=True)
        rc = 2
    except BaseException as exc:  # noqa: BLE001 - harness failure must not look like a verdict
        import traceback

        traceback.print_exc()
        print(f"HARNESS-ERROR: {type(exc).__name__}: {exc}", flush=True)
        rc = 3
    sys.exit(rc)
